(* C10: the simulation of C10_sim.v generalised to every clock and to tempo maps: EVERY real-time execution
   (start instant, clock readings, any order of wake-ups the clocks accept) is, step for step, the
   non-real-time SEMANTICS executed in that order (xnrt_follow), logical times shifted by the start
   instant.  The order in which the wake-ups are performed is thus the ONLY thing by which the two modes
   can differ; the non-real-time run proper is the order of its scheduler (xnrt_order). *)
From Coq Require Import ZArith QArith Qround List Bool Lia Lqa Permutation Sorting.Sorted.
Require Import SC3.model.KProg SC3.model.KNrt SC3.model.KRt SC3.model.KRand SC3.model.KAgree.
Require Import SC3.proofs.C05_frame SC3.proofs.C07_stamp SC3.proofs.C07_runs SC3.proofs.C05_props SC3.proofs.C05_exec.
Require Import SC3.proofs.C10_frame SC3.proofs.C10_gens SC3.proofs.C10_sim.
Import ListNotations.
Open Scope Q_scope.
Local Opaque Qred.

(* ---- ordered insertion and per-clock sub-queues ---------------------------------------------------------- *)
Section KF.
  Context {A : Type} (kt : A -> Q) (kc : A -> nat).

  Lemma filter_kinsert_other (f : A -> bool) x l : f x = false -> filter f (kinsert kt kc x l) = filter f l.
  Proof.
    intros Hx. induction l as [|y l IH]; simpl; [rewrite Hx; reflexivity|].
    destruct (key_leb (kt y) (kc y) (kt x) (kc x)); simpl.
    - rewrite IH. reflexivity.
    - rewrite Hx. reflexivity.
  Qed.

  (* in an ordered list nothing after the insertion point is before x *)
  Lemma filter_kinsert_same (f : A -> bool) x l : ksorted kt kc l -> (forall y, In y l -> (kc y < kc x)%nat) ->
    f x = true -> filter f (kinsert kt kc x l) = kinsert kt kc x (filter f l).
  Proof.
    intros Hs Hc Hx. unfold ksorted in Hs. induction Hs as [|y l Hs IH Hy]; simpl; [rewrite Hx; reflexivity|].
    destruct (key_leb (kt y) (kc y) (kt x) (kc x)) eqn:E.
    - simpl. destruct (f y) eqn:Fy; simpl.
      + rewrite E. f_equal. apply IH. intros; apply Hc; simpl; auto.
      + apply IH. intros; apply Hc; simpl; auto.
    - simpl. rewrite Hx. destruct (f y) eqn:Fy; simpl.
      + rewrite E. reflexivity.
      + (* everything after y is after x too *)
        assert (Hlt : kt x < kt y) by (apply (key_leb_false kt kc y x E); apply Hc; simpl; auto).
        assert (G : forall l', Forall (lex_lt kt kc y) l' -> (forall z, In z l' -> (kc z < kc x)%nat) ->
                   x :: filter f l' = kinsert kt kc x (filter f l')).
        { induction l' as [|z l' IH']; intros Fz Hcz; simpl; auto.
          inversion Fz as [|? ? Hz Fz']; subst. destruct (f z) eqn:Fzz; simpl.
          - assert (E' : key_leb (kt z) (kc z) (kt x) (kc x) = false).
            { unfold key_leb. assert (kt x < kt z) by (destruct Hz as [Hz|[Hz _]]; lra).
              assert (Qltb (kt z) (kt x) = false) by (apply Qltb_ge; lra). rewrite H0. simpl.
              assert (Qeq_bool (kt z) (kt x) = false).
              { destruct (Qeq_bool (kt z) (kt x)) eqn:Q; auto. apply Qeq_bool_iff in Q. lra. }
              rewrite H1. reflexivity. }
            rewrite E'. reflexivity.
          - apply IH'; auto. intros; apply Hcz; simpl; auto. }
        apply G; auto. intros; apply Hc; simpl; auto.
  Qed.
End KF.

(* with the largest count, x goes after every entry whose time is not later *)
Lemma key_leb_max t1 c1 t2 c2 : (c1 < c2)%nat -> key_leb t1 c1 t2 c2 = Qle_bool t1 t2.
Proof.
  intros Hc. unfold key_leb, Qltb.
  assert (Nat.leb c1 c2 = true) by (apply Nat.leb_le; lia). rewrite H, andb_true_r.
  destruct (Qle_bool t1 t2) eqn:A.
  - apply Qle_bool_iff in A. destruct (Qle_bool t2 t1) eqn:B; simpl; auto.
    apply Qle_bool_iff in B. apply Qeq_bool_iff. lra.
  - assert (~ t1 <= t2) by (intros G; apply Qle_bool_iff in G; congruence).
    assert (Qle_bool t2 t1 = true) by (apply Qle_bool_iff; lra). rewrite H1. simpl.
    destruct (Qeq_bool t1 t2) eqn:Q; auto. apply Qeq_bool_iff in Q. lra.
Qed.

Section KRel.
  Context {A B : Type} (ta : A -> Q) (ca : A -> nat) (tb : B -> Q) (cb : B -> nat) (R : A -> B -> Prop).
  (* related lists, related new elements with the largest counts, and times ordered alike *)
  Lemma kinsert_rel x x' la lb : R x x' -> Forall2 R la lb ->
    (forall y, In y la -> (ca y < ca x)%nat) -> (forall y, In y lb -> (cb y < cb x')%nat) ->
    (forall y y', R y y' -> In y la -> Qle_bool (ta y) (ta x) = Qle_bool (tb y') (tb x')) ->
    Forall2 R (kinsert ta ca x la) (kinsert tb cb x' lb).
  Proof.
    intros Hx F. induction F as [|y y' la lb Hy F IH]; intros Ha Hb Ho; simpl; [constructor; auto|].
    rewrite (key_leb_max _ _ _ _ (Ha y (or_introl eq_refl))), (key_leb_max _ _ _ _ (Hb y' (or_introl eq_refl))).
    rewrite (Ho y y' Hy (or_introl eq_refl)).
    destruct (Qle_bool (tb y') (tb x')).
    - constructor; auto. apply IH; intros; [apply Ha|apply Hb|eapply Ho]; simpl; eauto.
    - constructor; auto.
  Qed.
End KRel.

Lemma Forall2_filter {A B} (R : A -> B -> Prop) (f : A -> bool) (g : B -> bool) la lb :
  Forall2 R la lb -> (forall a b, R a b -> f a = g b) -> Forall2 R (filter f la) (filter g lb).
Proof.
  intros F H. induction F as [|a b la lb Hab F IH]; simpl; [constructor|].
  rewrite (H a b Hab). destruct (g b); auto.
Qed.
Lemma filter_filter_comm {A} (f g : A -> bool) l : filter f (filter g l) = filter g (filter f l).
Proof.
  induction l as [|x l IH]; simpl; auto.
  destruct (f x) eqn:Fx; destruct (g x) eqn:Gx; simpl; rewrite ?Fx, ?Gx, IH; reflexivity.
Qed.

Lemma b2s_le_iff tcs c x y : wf_tcs tcs -> pos_tcs tcs -> (b2s tcs c x <= b2s tcs c y <-> x <= y).
Proof.
  intros W P. split; intros H.
  - rewrite <- (s2b_b2s tcs c x W), <- (s2b_b2s tcs c y W). apply s2b_mono; auto.
  - apply b2s_mono; auto.
Qed.

(* ---- tempo maps of the two modes: same beats, seconds shifted by the start instant ---------------------- *)
Section Rel.
  Context (t0 : Q).

  Definition tc_rel (ta tb : tclock) : Prop :=
    t_tempo tb == t_tempo ta /\ t_bdur tb == t_bdur ta /\ t_bbeats tb == t_bbeats ta /\ t_bsecs tb == t_bsecs ta + t0.
  Definition tcs_rel (a b : list tclock) : Prop := Forall2 tc_rel a b.

  Lemma tc_rel_b2s ta tb x y : tc_rel ta tb -> y == x -> tc_b2s tb y == tc_b2s ta x + t0.
  Proof. intros (A & B & C & D) E. unfold tc_b2s. rewrite A || idtac. rewrite B, C, D, E. ring. Qed.
  Lemma tc_rel_s2b ta tb x y : tc_rel ta tb -> y == x + t0 -> tc_s2b tb y == tc_s2b ta x.
  Proof. intros (A & B & C & D) E. unfold tc_s2b. rewrite A, C, D, E. ring. Qed.

  Lemma tcs_rel_nth a b i : tcs_rel a b ->
    match nth_error a i, nth_error b i with
    | Some ta, Some tb => tc_rel ta tb
    | None, None => True
    | _, _ => False
    end.
  Proof.
    intros F. revert i. induction F as [|x y a b Hxy F IH]; intros [|i]; simpl; auto. apply IH.
  Qed.
  Lemma tcs_rel_clock_ok a b c : tcs_rel a b -> clock_ok b c = clock_ok a c.
  Proof.
    intros F. destruct c as [| |i]; simpl; auto. pose proof (tcs_rel_nth a b i F) as H.
    destruct (nth_error a i), (nth_error b i); auto; tauto.
  Qed.
  (* for a clock that exists *)
  Lemma tcs_rel_b2s a b c x y : tcs_rel a b -> clock_ok a c = true -> y == x ->
    match c with CTempo _ => b2s b c y == b2s a c x + t0 | _ => True end.
  Proof.
    intros F Hc E. destruct c as [| |i]; auto. simpl in *. pose proof (tcs_rel_nth a b i F) as H.
    destruct (nth_error a i) as [ta|]; [|discriminate]. destruct (nth_error b i) as [tb|]; [|tauto].
    apply tc_rel_b2s; auto.
  Qed.
  Lemma tcs_rel_s2b a b c x y : tcs_rel a b -> clock_ok a c = true -> y == x + t0 ->
    match c with CTempo _ => s2b b c y == s2b a c x | _ => True end.
  Proof.
    intros F Hc E. destruct c as [| |i]; auto. simpl in *. pose proof (tcs_rel_nth a b i F) as H.
    destruct (nth_error a i) as [ta|]; [|discriminate]. destruct (nth_error b i) as [tb|]; [|tauto].
    apply tc_rel_s2b; auto.
  Qed.

  Lemma Qltb_ext x y x' y' : (x < y <-> x' < y') -> Qltb x y = Qltb x' y'.
  Proof.
    intros H. destruct (Qltb x y) eqn:A; destruct (Qltb x' y') eqn:B; auto.
    - apply Qltb_lt in A. apply H in A. apply Qltb_lt in A. congruence.
    - apply Qltb_lt in B. apply H in B. apply Qltb_lt in B. congruence.
  Qed.

  Lemma tc_set_tempo_rel ta tb T T' v : tc_rel ta tb -> T' == T + t0 ->
    match tc_set_tempo ta T v, tc_set_tempo tb T' v with
    | Some a', Some b' => tc_rel a' b'
    | None, None => True
    | _, _ => False
    end.
  Proof.
    intros R E. pose proof R as (A & B & C & D). unfold tc_set_tempo.
    destruct (Qeq_bool v 0); auto.
    rewrite (Qltb_ext (t_tempo tb) 0 (t_tempo ta) 0) by (rewrite A; tauto).
    destruct (Qltb (t_tempo ta) 0); auto. destruct (Qltb v 0); auto.
    unfold tc_rel. cbn [t_tempo t_bdur t_bbeats t_bsecs]. rewrite !Qred_correct.
    pose proof (tc_rel_s2b ta tb T T' R E) as S.
    repeat split; try reflexivity; auto.
    apply tc_rel_b2s; auto.
  Qed.

  (* ---- queue entries ---------------------------------------------------------------------------------- *)
  Definition ent_rel (a b : entry) : Prop :=
    e_clock b = e_clock a /\ e_rid b = e_rid a /\
    match e_clock a with CTempo _ => e_time b == e_beats a | _ => e_time b == e_time a + t0 end.

  Record aside (n : nstate) : Prop := mkAside {
    as_wf : wf_tcs (n_tcs n);
    as_pos : pos_tcs (n_tcs n);
    as_ent : forall e, In e (n_q n) -> e_time e == b2s (n_tcs n) (e_clock e) (e_beats e) /\ e_clock e <> CApp /\
                                       clock_ok (n_tcs n) (e_clock e) = true
  }.
  Definition qok (n : nstate) : Prop :=
    ksorted e_time e_cnt (n_q n) /\ forall e, In e (n_q n) -> (e_cnt e < n_qcnt n)%nat.

  Record nsim2 (na nb : nstate) : Prop := mkNsim2 {
    n2_qa : qok na;
    n2_qb : qok nb;
    n2_a : aside na;
    n2_tcs : tcs_rel (n_tcs na) (n_tcs nb);
    n2_q : forall c, Forall2 ent_rel (filter (is_clock c) (n_q na)) (filter (is_clock c) (n_q nb));
    n2_log : Forall2 (ev_sim t0) (n_log na) (n_log nb)
  }.

  Lemma qok_xpush n t c rid b : qok n -> qok (xpush true n t c rid b).
  Proof.
    intros [S C]. unfold xpush, qok. rewrite push_q. cbn [n_q n_qcnt set_q push]. split.
    - apply kinsert_sorted; [apply ksorted_filter; exact S|].
      intros y Hy. apply filter_In in Hy. simpl. apply C. tauto.
    - intros e He. apply kinsert_in in He. destruct He as [->|He]; simpl; [lia|].
      apply filter_In in He. specialize (C e (proj1 He)). lia.
  Qed.

  Lemma dedup_filter_comm c rid c' q : filter (is_clock c') (dedup_q c rid q) = dedup_q c rid (filter (is_clock c') q).
  Proof. unfold dedup_q. apply filter_filter_comm. Qed.
  Lemma dedup_rel c rid la lb : Forall2 ent_rel la lb -> Forall2 ent_rel (dedup_q c rid la) (dedup_q c rid lb).
  Proof.
    intros F. unfold dedup_q. apply Forall2_filter; auto.
    intros a b (C1 & C2 & _). unfold is_clock. rewrite C1, C2. reflexivity.
  Qed.

  Lemma xpush_sim2 na nb ta tb c rid ba bb : nsim2 na nb -> c <> CApp -> clock_ok (n_tcs na) c = true ->
    ta == b2s (n_tcs na) c ba ->
    match c with CTempo _ => tb == ba | _ => tb == ta + t0 end ->
    nsim2 (xpush true na ta c rid ba) (xpush true nb tb c rid bb).
  Proof.
    intros [QA QB AS TR QR LR] Hc Hok Hta Htb.
    constructor; auto using qok_xpush.
    - destruct AS as [W P E]. constructor; auto. unfold xpush. rewrite push_q. cbn [n_q n_tcs set_q push].
      intros e He. apply kinsert_in in He. destruct He as [->|He].
      + cbn [e_time e_clock e_beats]. split; [|split; auto]. rewrite Qred_correct, Hta. apply b2s_comp. rewrite Qred_correct. reflexivity.
      + apply filter_In in He. apply E. tauto.
    - intros c'. unfold xpush. rewrite !push_q. cbn [n_q n_qcnt set_q].
      set (xa := mkE (Qred ta) (n_qcnt na) c rid (Qred ba)). set (xb := mkE (Qred tb) (n_qcnt nb) c rid (Qred bb)).
      destruct QA as [SA CA]. destruct QB as [SB CB].
      assert (Da : ksorted e_time e_cnt (dedup_q c rid (n_q na))) by (apply ksorted_filter; auto).
      assert (Db : ksorted e_time e_cnt (dedup_q c rid (n_q nb))) by (apply ksorted_filter; auto).
      assert (Ca : forall y, In y (dedup_q c rid (n_q na)) -> (e_cnt y < e_cnt xa)%nat).
      { intros y Hy. apply filter_In in Hy. simpl. apply CA. tauto. }
      assert (Cb : forall y, In y (dedup_q c rid (n_q nb)) -> (e_cnt y < e_cnt xb)%nat).
      { intros y Hy. apply filter_In in Hy. simpl. apply CB. tauto. }
      destruct (is_clock c' xa) eqn:Ec.
      + assert (Ec' : is_clock c' xb = true) by exact Ec.
        rewrite (filter_kinsert_same e_time e_cnt (is_clock c') xa _ Da Ca Ec).
        rewrite (filter_kinsert_same e_time e_cnt (is_clock c') xb _ Db Cb Ec').
        rewrite !dedup_filter_comm.
        apply is_clock_true in Ec. cbn [e_clock xa] in Ec. subst c'.
        apply (kinsert_rel e_time e_cnt e_time e_cnt ent_rel).
        * unfold ent_rel. cbn [e_clock e_rid e_time e_beats xa xb]. split; auto. split; auto.
          destruct c; rewrite !Qred_correct; auto.
        * apply dedup_rel. apply QR.
        * intros y Hy. apply filter_In in Hy. apply Ca. apply filter_In. split; [|tauto].
          destruct Hy as [Hy _]. apply filter_In in Hy. tauto.
        * intros y Hy. apply filter_In in Hy. apply Cb. apply filter_In. split; [|tauto].
          destruct Hy as [Hy _]. apply filter_In in Hy. tauto.
        * intros y y' (R1 & R2 & R3) Hy. cbn [e_time xa xb].
          apply filter_In in Hy. destruct Hy as [Hy _]. apply filter_In in Hy. destruct Hy as [Hy Hyc].
          apply is_clock_true in Hyc. rewrite Hyc in R3.
          destruct AS as [W P E]. destruct (E y Hy) as (K1 & _ & _). rewrite Hyc in K1.
          apply Qle_bool_ext. rewrite !Qred_correct.
          destruct c as [| |i].
          -- rewrite R3, Htb. split; intros; lra.
          -- congruence.
          -- rewrite R3, Htb, K1, Hta. apply b2s_le_iff; auto.
      + assert (Ec' : is_clock c' xb = false) by exact Ec.
        rewrite (filter_kinsert_other e_time e_cnt (is_clock c') xa _ Ec), (filter_kinsert_other e_time e_cnt (is_clock c') xb _ Ec').
        rewrite !dedup_filter_comm. apply dedup_rel. apply QR.
  Qed.
End Rel.

(* ---- the re-timing of the non-real-time queue keeps the order of every clock's entries -------------------- *)
Lemma repush_filter_other c c' l : c' <> c -> forall s,
  filter (is_clock c') (n_q (fold_left (repush c) l s)) = filter (is_clock c') (n_q s).
Proof.
  intros Hne. induction l as [|e l IH]; intros s; simpl; auto.
  rewrite IH. unfold repush. rewrite push_q. apply filter_kinsert_other.
  unfold is_clock. cbn [e_clock]. destruct (clock_eqb c c') eqn:E; auto.
  exfalso. apply Hne. destruct c, c'; simpl in E; try discriminate; auto. apply Nat.eqb_eq in E. congruence.
Qed.

Definition re_rel (tcs : list tclock) (c : clockid) (e' e : entry) : Prop :=
  e_rid e' = e_rid e /\ e_clock e' = c /\ e_beats e' == e_beats e /\ e_time e' == b2s tcs c (e_beats e).

Lemma filter_is_clock_other c c' q : c' <> c ->
  filter (is_clock c') (filter (fun e => negb (is_clock c e)) q) = filter (is_clock c') q.
Proof.
  intros Hne. induction q as [|x q IH]; simpl; auto.
  destruct (is_clock c x) eqn:Ex; simpl.
  - destruct (is_clock c' x) eqn:Ex'; auto. apply is_clock_true in Ex. apply is_clock_true in Ex'. congruence.
  - rewrite IH. reflexivity.
Qed.

Lemma repush_filter_same c l : forall s,
  pos_tcs (n_tcs s) ->
  ksorted e_time e_cnt (n_q s) -> (forall e, In e (n_q s) -> (e_cnt e < n_qcnt s)%nat) ->
  (forall y b, In y (filter (is_clock c) (n_q s)) -> In b l -> e_time y <= b2s (n_tcs s) c (e_beats b)) ->
  StronglySorted (fun y z => e_beats y <= e_beats z) l ->
  exists l', filter (is_clock c) (n_q (fold_left (repush c) l s)) = filter (is_clock c) (n_q s) ++ l' /\
             Forall2 (re_rel (n_tcs s) c) l' l.
Proof.
  induction l as [|e l IH]; intros s P Hs Hc Hle Hsl; simpl.
  - exists []. rewrite app_nil_r. split; [reflexivity|constructor].
  - inversion Hsl as [|? ? Hsl' Hfe]; subst.
    set (x := mkE (Qred (b2s (n_tcs s) c (e_beats e))) (n_qcnt s) c (e_rid e) (Qred (e_beats e))).
    assert (Eq : n_q (repush c s e) = kinsert e_time e_cnt x (n_q s)) by reflexivity.
    assert (Ex : is_clock c x = true).
    { unfold is_clock. cbn [e_clock x]. destruct c; simpl; auto. apply Nat.eqb_refl. }
    assert (Ef : filter (is_clock c) (n_q (repush c s e)) = filter (is_clock c) (n_q s) ++ [x]).
    { rewrite Eq. rewrite filter_kinsert_same; auto.
      apply kinsert_last. intros y Hy.
        assert (Hy' : In y (n_q s)) by (apply filter_In in Hy; tauto).
        rewrite key_leb_max by (apply Hc; exact Hy'). cbn [e_time x]. apply Qle_bool_iff. rewrite Qred_correct.
        apply Hle; auto. left; reflexivity. }
    destruct (IH (repush c s e)) as (l' & E' & F'); auto.
    + rewrite Eq. apply kinsert_sorted; auto.
    + intros e0 He0. rewrite Eq in He0. apply kinsert_in in He0. unfold repush, push. cbn [n_qcnt].
      destruct He0 as [->|He0]; simpl; [lia|]. specialize (Hc _ He0). lia.
    + intros y b Hy Hb. rewrite Ef in Hy. apply in_app_or in Hy. change (n_tcs (repush c s e)) with (n_tcs s).
      destruct Hy as [Hy|[<-|[]]].
      * apply Hle; auto. right; exact Hb.
      * cbn [e_time x]. rewrite Qred_correct. apply b2s_mono; auto. rewrite Forall_forall in Hfe. apply Hfe. exact Hb.
    + exists (x :: l'). split.
      * rewrite E', Ef, <- app_assoc. reflexivity.
      * constructor; [|exact F'].
        unfold re_rel. cbn [e_rid e_clock e_beats e_time x]. repeat split; auto; apply Qred_correct.
Qed.

Lemma clock_ok_set tcs i t c : clock_ok tcs c = true -> clock_ok (set_nth tcs i t) c = true.
Proof.
  destruct c as [| |j]; simpl; auto. destruct (nth_error tcs j) as [x|] eqn:E; [|discriminate]. intros _.
  destruct (Nat.eq_dec i j) as [->|Hne].
  - rewrite (set_nth_same _ _ _ _ E). reflexivity.
  - rewrite set_nth_other, E; auto.
Qed.
Lemma Forall2_set_nth {A B} (R : A -> B -> Prop) la lb i x y :
  Forall2 R la lb -> R x y -> Forall2 R (set_nth la i x) (set_nth lb i y).
Proof.
  intros F Hxy. revert i. induction F as [|a b la lb Hab F IH]; intros [|i]; simpl; constructor; auto.
Qed.
Lemma sorted_impl {A} (R S : A -> A -> Prop) l : StronglySorted R l ->
  (forall a b, In a l -> In b l -> R a b -> S a b) -> StronglySorted S l.
Proof.
  induction 1 as [|x l Hs IH Hx]; intros H; constructor.
  - apply IH. intros a b Ha Hb. apply H; simpl; auto.
  - rewrite Forall_forall in *. intros y Hy. apply H; simpl; auto.
Qed.

Lemma filter_neg_pos {A} (f : A -> bool) l : filter (fun e => negb (f e)) (filter f l) = [].
Proof.
  induction l as [|x l IH]; simpl; auto. destruct (f x) eqn:E; simpl; auto. rewrite E. simpl. exact IH.
Qed.

Section NSim.
  Context (t0 : Q).

  Lemma add_log_sim2 na nb ev ev' : nsim2 t0 na nb -> ev_sim t0 ev ev' -> nsim2 t0 (add_log na ev) (add_log nb ev').
  Proof.
    intros [QA QB AS TR QR LR] He. constructor; auto.
    - destruct AS as [W P E]. constructor; auto.
    - simpl. constructor; auto.
  Qed.
  Lemma set_mtime_sim2 na nb m m' : nsim2 t0 na nb -> nsim2 t0 (set_mtime na m) (set_mtime nb m').
  Proof. intros [QA QB AS TR QR LR]. constructor; auto. destruct AS as [W P E]. constructor; auto. Qed.
  Lemma score_add_sim2 na nb t b : nsim2 t0 na nb -> nsim2 t0 (score_add na t b) nb.
  Proof. intros [QA QB AS TR QR LR]. constructor; auto. destruct AS as [W P E]. constructor; auto. Qed.

  Lemma sched_play_sim2 off na nb T T' c rid : nsim2 t0 na nb -> T' == T + t0 -> c <> CApp ->
    clock_ok (n_tcs na) c = true ->
    nsim2 t0 (x_sched_play true None na T c rid) (x_sched_play true (Some off) nb T' c rid).
  Proof.
    intros S Ht Hc Hok. unfold x_sched_play.
    apply xpush_sim2; auto; [reflexivity|].
    destruct c as [| |i]; [simpl; lra|congruence|].
    pose proof (tcs_rel_s2b t0 _ _ (CTempo i) T T' (n2_tcs _ _ _ S) Hok Ht) as E. cbv beta iota in E. rewrite E. reflexivity.
  Qed.

  Lemma send_sim2 off na nb org T T' lat es : nsim2 t0 na nb -> T' == T + t0 -> 0 <= T -> 0 <= t0 -> (0 <= off)%Z ->
    nsim2 t0 (fst (nrt_send None na (Some org) T lat es)) (fst (nrt_send (Some off) nb (Some org) T' lat es)) /\
    snd (nrt_send None na (Some org) T lat es) = snd (nrt_send (Some off) nb (Some org) T' lat es).
  Proof.
    intros H Ht Hn H0 Ho. unfold nrt_send. cbn [send_mode inside].
    assert (HT' : 0 <= T') by lra.
    pose proof (stamp_bundle_isS (MNrt true) T (MRt off) T' lat es (tags_ok_nrt T Hn) (tags_ok_rt off T' HT' Ho)) as E.
    destruct (stamp_bundle (MNrt true) T lat es) as [sb|] eqn:E1;
      destruct (stamp_bundle (MRt off) T' lat es) as [sb'|] eqn:E2; simpl in E; try discriminate; cbn [fst snd].
    - split; auto.
      destruct (stamp_bundle_shape _ _ _ _ _ E1) as (ss & -> & _).
      destruct (stamp_bundle_shape _ _ _ _ _ E2) as (ss' & -> & _).
      apply add_log_sim2; [apply score_add_sim2; auto|].
      simpl. repeat split; auto. rewrite stamp_time_nrt_inside, stamp_time_rt. lra.
    - split; auto. apply add_log_sim2; auto. simpl. repeat split; auto.
  Qed.

  Lemma tempo_sim2 off na nb org T T' i v : nsim2 t0 na nb -> T' == T + t0 ->
    nsim2 t0 (fst (nrt_set_tempo None repaired na org T i v)) (fst (nrt_set_tempo (Some off) repaired nb org T' i v)) /\
    snd (nrt_set_tempo None repaired na org T i v) = snd (nrt_set_tempo (Some off) repaired nb org T' i v).
  Proof.
    intros S Ht. pose proof S as [QA QB AS TR QR LR]. unfold nrt_set_tempo.
    pose proof (tcs_rel_nth t0 _ _ i TR) as Hn.
    destruct (nth_error (n_tcs na) i) as [ta|] eqn:Ea; destruct (nth_error (n_tcs nb) i) as [tb|] eqn:Eb; try tauto.
    2:{ cbn [fst snd]. split; auto. apply add_log_sim2; auto. simpl. auto. }
    pose proof (tc_set_tempo_rel t0 ta tb T T' v Hn Ht) as Hs.
    destruct (tc_set_tempo ta T v) as [ta'|] eqn:Sa; destruct (tc_set_tempo tb T' v) as [tb'|] eqn:Sb; try tauto.
    2:{ cbn [fst snd]. split; auto. apply add_log_sim2; auto. simpl. auto. }
    cbn [fst snd qk_tempo_frozen repaired]. split; auto.
    apply add_log_sim2; [|simpl; auto].
    set (st1 := set_f11 (set_tcs na (set_nth (n_tcs na) i ta')) (n_f11 na || existsb (is_clock (CTempo i)) (n_q na))).
    set (st1b := set_f11 (set_tcs nb (set_nth (n_tcs nb) i tb')) (n_f11 nb || existsb (is_clock (CTempo i)) (n_q nb))).
    destruct (retime_proj st1 i) as (P1 & P2 & P3 & _).
    destruct AS as [W P E]. destruct QA as [SA CA].
    assert (W' : wf_tcs (n_tcs st1)) by (apply wf_tcs_set; auto; eapply tc_set_tempo_wf; eauto).
    assert (P' : pos_tcs (n_tcs st1)) by (apply pos_tcs_set; auto; eapply tc_set_tempo_pos; eauto).
    (* the clock-i entries, in queue order, have non-decreasing beats *)
    set (mine := filter (is_clock (CTempo i)) (n_q na)).
    assert (Hmine : StronglySorted (fun y z => e_beats y <= e_beats z) mine).
    { apply (sorted_impl (lex_lt e_time e_cnt)); [apply ksorted_filter; exact SA|].
      intros a b Ha Hb Hab. apply filter_In in Ha. apply filter_In in Hb.
      destruct Ha as [Ha Hac]. destruct Hb as [Hb Hbc]. apply is_clock_true in Hac. apply is_clock_true in Hbc.
      destruct (E a Ha) as (Ka & _). destruct (E b Hb) as (Kb & _). rewrite Hac in Ka. rewrite Hbc in Kb.
      apply (b2s_le_iff (n_tcs na) (CTempo i)); auto. rewrite <- Ka, <- Kb. destruct Hab as [H|[H _]]; lra. }
    destruct (repush_filter_same (CTempo i) mine (set_q st1 (filter (fun e => negb (is_clock (CTempo i) e)) (n_q st1))))
      as (l' & El & Fl); auto.
    { cbn [n_q set_q]. apply ksorted_filter. exact SA. }
    { cbn [n_q n_qcnt set_q]. intros e He. apply filter_In in He. apply CA. tauto. }
    { cbn [n_q set_q]. intros y b Hy Hb. apply filter_In in Hy. destruct Hy as [Hy Hc]. apply filter_In in Hy.
      destruct Hy as [_ Hy]. rewrite Hc in Hy. discriminate. }
    assert (Eret : fold_left (repush (CTempo i)) mine (set_q st1 (filter (fun e => negb (is_clock (CTempo i) e)) (n_q st1))) = retime st1 i) by reflexivity.
    rewrite Eret in El.
    assert (Enone : filter (is_clock (CTempo i)) (n_q (set_q st1 (filter (fun e => negb (is_clock (CTempo i) e)) (n_q st1)))) = []).
    { cbn [n_q set_q]. rewrite filter_filter_comm. apply filter_neg_pos. }
    rewrite Enone in El. simpl in El.
    destruct (repush_fold_sorted (CTempo i) (filter (is_clock (CTempo i)) (n_q st1))
                (set_q st1 (filter (fun e => negb (is_clock (CTempo i) e)) (n_q st1)))) as (S1 & S2).
    { cbn [n_q set_q]. apply ksorted_filter. exact SA. }
    { cbn [n_q n_qcnt set_q]. intros e He. apply filter_In in He. apply CA. tauto. }
    rewrite <- retime_unfold in S1, S2.
    constructor.
    - split; auto.
    - exact QB.
    - constructor; rewrite ?P3; auto.
      intros e' He'. destruct (retime_in _ _ _ He') as [[Hin Hc]|(e & Hin & Hce & R1 & R2 & R3 & R4)].
      + destruct (E e' Hin) as (K1 & K2 & K3). split; [|split; auto].
        * cbn [n_tcs st1 set_f11 set_tcs]. rewrite b2s_set_other; auto.
        * apply clock_ok_set. exact K3.
      + destruct (E e Hin) as (K1 & K2 & K3). rewrite R2. split; [|split].
        * rewrite R4. apply b2s_comp. symmetry. exact R3.
        * discriminate.
        * apply clock_ok_set. rewrite <- Hce. exact K3.
    - rewrite P3. cbn [n_tcs st1 st1b set_f11 set_tcs]. apply Forall2_set_nth; auto.
    - intros c. cbn [n_q st1b set_f11 set_tcs add_log].
      destruct (clock_eqb c (CTempo i)) eqn:Ec.
      + assert (c = CTempo i) as -> by (destruct c; simpl in Ec; try discriminate; apply Nat.eqb_eq in Ec; congruence).
        rewrite El. specialize (QR (CTempo i)). fold mine in QR.
        assert (Hcl : Forall (fun y => e_clock y = CTempo i) mine).
        { apply Forall_forall. intros y Hy. apply filter_In in Hy. apply is_clock_true. tauto. }
        clear -Fl QR Hcl. revert QR Hcl. generalize (filter (is_clock (CTempo i)) (n_q nb)).
        induction Fl as [|x y lx ly Hxy F IH]; intros lb QR Hcl; inversion QR; subst; constructor.
        * inversion Hcl as [|? ? Yc _]; subst.
          destruct Hxy as (X1 & X2 & X3 & X4). destruct H1 as (Y1 & Y2 & Y3). rewrite Yc in Y3.
          unfold ent_rel. rewrite X1, X2. repeat split; try congruence. rewrite Y3, X3. reflexivity.
        * apply IH; auto. inversion Hcl; auto.
      + assert (Hne : c <> CTempo i).
        { intros ->. simpl in Ec. rewrite Nat.eqb_refl in Ec. discriminate. }
        rewrite retime_unfold. rewrite repush_filter_other by exact Hne. cbn [n_q set_q st1 set_f11 set_tcs].
        rewrite filter_is_clock_other by exact Hne. apply QR.
    - rewrite P1. exact LR.
  Qed.

  (* the common part of the tempo and of the beats setters: clock i gets related new maps, the non-real-time queue is re-timed *)
  Lemma tc_set_beats_facts ta tb T T' v : tc_rel t0 ta tb -> wf_tc ta -> pos_tc ta -> T' == T + t0 ->
    tc_rel t0 (tc_set_beats ta T v) (tc_set_beats tb T' v) /\ wf_tc (tc_set_beats ta T v) /\ pos_tc (tc_set_beats ta T v).
  Proof.
    intros (A & B & C & D) [W1 W2] [P1 P2] E. unfold tc_set_beats, tc_rel, wf_tc, pos_tc. cbn [t_tempo t_bdur t_bbeats t_bsecs].
    rewrite !Qred_correct. split; [|split].
    - split; [exact A|]. split; [rewrite A; reflexivity|]. split; [reflexivity|]. rewrite E. reflexivity.
    - split; [exact W1|]. field. exact W1.
    - split; [exact P1|]. apply Qlt_shift_div_l; lra.
  Qed.

  Lemma retime_sim2 na nb i ta tb ta' tb' ev ev' : nsim2 t0 na nb ->
    nth_error (n_tcs na) i = Some ta -> nth_error (n_tcs nb) i = Some tb ->
    tc_rel t0 ta' tb' -> wf_tc ta' -> pos_tc ta' -> ev_sim t0 ev ev' ->
    nsim2 t0 (add_log (retime (set_tcs na (set_nth (n_tcs na) i ta')) i) ev) (add_log (set_tcs nb (set_nth (n_tcs nb) i tb')) ev').
  Proof.
    intros S Ea Eb Hs Wt Pt Hev. pose proof S as [QA QB AS TR QR LR].
    apply add_log_sim2; [|exact Hev].
    set (st1 := set_tcs na (set_nth (n_tcs na) i ta')).
    set (st1b := set_tcs nb (set_nth (n_tcs nb) i tb')).
    destruct (retime_proj st1 i) as (P1 & P2 & P3 & _).
    destruct AS as [W P E]. destruct QA as [SA CA].
    assert (W' : wf_tcs (n_tcs st1)) by (apply wf_tcs_set; auto).
    assert (P' : pos_tcs (n_tcs st1)) by (apply pos_tcs_set; auto).
    (* the clock-i entries, in queue order, have non-decreasing beats *)
    set (mine := filter (is_clock (CTempo i)) (n_q na)).
    assert (Hmine : StronglySorted (fun y z => e_beats y <= e_beats z) mine).
    { apply (sorted_impl (lex_lt e_time e_cnt)); [apply ksorted_filter; exact SA|].
      intros a b Ha Hb Hab. apply filter_In in Ha. apply filter_In in Hb.
      destruct Ha as [Ha Hac]. destruct Hb as [Hb Hbc]. apply is_clock_true in Hac. apply is_clock_true in Hbc.
      destruct (E a Ha) as (Ka & _). destruct (E b Hb) as (Kb & _). rewrite Hac in Ka. rewrite Hbc in Kb.
      apply (b2s_le_iff (n_tcs na) (CTempo i)); auto. rewrite <- Ka, <- Kb. destruct Hab as [H|[H _]]; lra. }
    destruct (repush_filter_same (CTempo i) mine (set_q st1 (filter (fun e => negb (is_clock (CTempo i) e)) (n_q st1))))
      as (l' & El & Fl); auto.
    { cbn [n_q set_q]. apply ksorted_filter. exact SA. }
    { cbn [n_q n_qcnt set_q]. intros e He. apply filter_In in He. apply CA. tauto. }
    { cbn [n_q set_q]. intros y b Hy Hb. apply filter_In in Hy. destruct Hy as [Hy Hc]. apply filter_In in Hy.
      destruct Hy as [_ Hy]. rewrite Hc in Hy. discriminate. }
    assert (Eret : fold_left (repush (CTempo i)) mine (set_q st1 (filter (fun e => negb (is_clock (CTempo i) e)) (n_q st1))) = retime st1 i) by reflexivity.
    rewrite Eret in El.
    assert (Enone : filter (is_clock (CTempo i)) (n_q (set_q st1 (filter (fun e => negb (is_clock (CTempo i) e)) (n_q st1)))) = []).
    { cbn [n_q set_q]. rewrite filter_filter_comm. apply filter_neg_pos. }
    rewrite Enone in El. simpl in El.
    destruct (repush_fold_sorted (CTempo i) (filter (is_clock (CTempo i)) (n_q st1))
                (set_q st1 (filter (fun e => negb (is_clock (CTempo i) e)) (n_q st1)))) as (S1 & S2).
    { cbn [n_q set_q]. apply ksorted_filter. exact SA. }
    { cbn [n_q n_qcnt set_q]. intros e He. apply filter_In in He. apply CA. tauto. }
    rewrite <- retime_unfold in S1, S2.
    constructor.
    - split; auto.
    - exact QB.
    - constructor; rewrite ?P3; auto.
      intros e' He'. destruct (retime_in _ _ _ He') as [[Hin Hc]|(e & Hin & Hce & R1 & R2 & R3 & R4)].
      + destruct (E e' Hin) as (K1 & K2 & K3). split; [|split; auto].
        * cbn [n_tcs st1 set_tcs]. rewrite b2s_set_other; auto.
        * apply clock_ok_set. exact K3.
      + destruct (E e Hin) as (K1 & K2 & K3). rewrite R2. split; [|split].
        * rewrite R4. apply b2s_comp. symmetry. exact R3.
        * discriminate.
        * apply clock_ok_set. rewrite <- Hce. exact K3.
    - rewrite P3. cbn [n_tcs st1 st1b set_tcs]. apply Forall2_set_nth; auto.
    - intros c. cbn [n_q st1b set_tcs add_log].
      destruct (clock_eqb c (CTempo i)) eqn:Ec.
      + assert (c = CTempo i) as -> by (destruct c; simpl in Ec; try discriminate; apply Nat.eqb_eq in Ec; congruence).
        rewrite El. specialize (QR (CTempo i)). fold mine in QR.
        assert (Hcl : Forall (fun y => e_clock y = CTempo i) mine).
        { apply Forall_forall. intros y Hy. apply filter_In in Hy. apply is_clock_true. tauto. }
        clear -Fl QR Hcl. revert QR Hcl. generalize (filter (is_clock (CTempo i)) (n_q nb)).
        induction Fl as [|x y lx ly Hxy F IH]; intros lb QR Hcl; inversion QR; subst; constructor.
        * inversion Hcl as [|? ? Yc _]; subst.
          destruct Hxy as (X1 & X2 & X3 & X4). destruct H1 as (Y1 & Y2 & Y3). rewrite Yc in Y3.
          unfold ent_rel. rewrite X1, X2. repeat split; try congruence. rewrite Y3, X3. reflexivity.
        * apply IH; auto. inversion Hcl; auto.
      + assert (Hne : c <> CTempo i).
        { intros ->. simpl in Ec. rewrite Nat.eqb_refl in Ec. discriminate. }
        rewrite retime_unfold. rewrite repush_filter_other by exact Hne. cbn [n_q set_q st1 set_tcs].
        rewrite filter_is_clock_other by exact Hne. apply QR.
    - rewrite P1. exact LR.
  Qed.

End NSim.

(* ---- xstate level ------------------------------------------------------------------------------------------ *)
Definition cok (L : nat) (c : clockid) : bool := match c with CTempo i => Nat.ltb i L | _ => true end.
Lemma clock_ok_cok tcs c : clock_ok tcs c = cok (length tcs) c.
Proof.
  destruct c as [| |i]; simpl; auto. destruct (nth_error tcs i) eqn:E.
  - symmetry. apply Nat.ltb_lt. apply nth_error_Some. rewrite E. discriminate.
  - symmetry. apply Nat.ltb_ge. apply nth_error_None. exact E.
Qed.

(* yields >= 0, no AppClock (it has no logical time in real time); initial tempi >= 0 *)
Definition prog_ok2 (p : xprog) : Prop := Forall aok (xp_bodies p) /\ Forall (fun t => 0 <= t) (xp_tempos p).

Lemma xpush_in n t c rid b e : In e (n_q (xpush true n t c rid b)) -> (e_rid e = rid /\ e_clock e = c) \/ In e (n_q n).
Proof.
  unfold xpush. rewrite push_q. cbn [n_q set_q]. intros H. apply kinsert_in in H. destruct H as [->|H]; [left; auto|].
  right. apply filter_In in H. tauto.
Qed.
Lemma xsp_in dd rt n T c rid e : In e (n_q (x_sched_play dd rt n T c rid)) -> (e_rid e = rid /\ e_clock e = c) \/ In e (n_q n).
Proof.
  unfold x_sched_play. destruct rt; [apply xpush_in|]. destruct dd; [apply xpush_in|].
  unfold xpush. rewrite push_q. intros H. apply kinsert_in in H. destruct H as [->|H]; [left; auto|right; auto].
Qed.


Section XSim2.
  Context (gen : Z -> list Z -> Z -> Z) (off : Z) (p : xprog) (t0 : Q) (L : nat).
  Hypothesis Hp : prog_ok2 p.
  Hypothesis Ht0 : 0 <= t0.
  Hypothesis Hoff : (0 <= off)%Z.

  Definition rinv2 (routs : list xrout) : Prop :=
    Forall (fun r => xr_clock r <> CApp /\ cok L (xr_clock r) = true /\ aok (xr_rest r)) routs.
  (* every task belongs to a routine that lives on the task's clock (a routine never changes clock) *)
  Definition qclk (a : xstate) : Prop :=
    forall e, In e (n_q (x_n a)) -> exists r, nth_error (x_routs a) (e_rid e) = Some r /\ xr_clock r = e_clock e.
  Definition sim2 (a b : xstate) : Prop :=
    nsim2 t0 (x_n a) (x_n b) /\ length (n_tcs (x_n a)) = L /\ x_routs b = x_routs a /\ x_gens b = x_gens a /\
    x_conds b = x_conds a /\ x_flows b = x_flows a /\ x_vals b = x_vals a /\ rinv2 (x_routs a) /\ qclk a.

  Ltac unpack2 S :=
    let N := fresh "N" in let HL := fresh "HL" in let R := fresh "R" in let QC := fresh "QC" in
    destruct S as (N & HL & ? & ? & ? & ? & ? & R & QC).
  Ltac ssplit2 := unfold sim2; simpl; split; [try assumption | repeat split; auto].

  Lemma sim2_set_n a b na nb : sim2 a b -> nsim2 t0 na nb -> length (n_tcs na) = L ->
    (forall e, In e (n_q na) -> In e (n_q (x_n a)) \/
               exists r, nth_error (x_routs a) (e_rid e) = Some r /\ xr_clock r = e_clock e) ->
    sim2 (set_n a na) (set_n b nb).
  Proof.
    intros S H Hl Hq. unpack2 S. ssplit2. intros e He. simpl in He. destruct (Hq e He) as [Ho|Hn]; auto.
  Qed.

  Lemma rinv2_nth routs rid r : rinv2 routs -> nth_error routs rid = Some r ->
    xr_clock r <> CApp /\ cok L (xr_clock r) = true /\ aok (xr_rest r).
  Proof. intros H Hn. unfold rinv2 in H. rewrite Forall_forall in H. apply H. eapply nth_error_In; eauto. Qed.
  Lemma rinv2_set routs rid r : rinv2 routs -> xr_clock r <> CApp -> cok L (xr_clock r) = true -> aok (xr_rest r) ->
    rinv2 (set_nth routs rid r).
  Proof.
    unfold rinv2. intros H Hc Hk Ha. revert rid. induction H as [|x l Hx Hl IH]; intros [|rid]; simpl; constructor; auto.
  Qed.

  Lemma xsp_tcs dd rt n T c rid : n_tcs (x_sched_play dd rt n T c rid) = n_tcs n.
  Proof. unfold x_sched_play, xpush. destruct rt; destruct dd; reflexivity. Qed.

  Lemma sched_sim2 a b T T' w : sim2 a b -> T' == T + t0 ->
    sim2 (x_sched true None a T w) (x_sched true (Some off) b T' w).
  Proof.
    intros S Ht. pose proof S as S'. unpack2 S'. unfold x_sched. rewrite H.
    destruct (nth_error (x_routs a) w) as [r|] eqn:E; auto.
    destruct (rinv2_nth _ _ _ R E) as (Hc & Hk & _).
    apply sim2_set_n; auto; try (rewrite xsp_tcs; exact HL).
    - apply sched_play_sim2; auto. rewrite clock_ok_cok, HL. exact Hk.
    - intros e He. destruct (xsp_in _ _ _ _ _ _ _ He) as [[E1 E2]|Ho]; auto.
      right. exists r. rewrite E1, E2. auto.
  Qed.
  Lemma sched_all_sim2 T T' ws : T' == T + t0 -> forall a b, sim2 a b ->
    sim2 (x_sched_all true None a T ws) (x_sched_all true (Some off) b T' ws).
  Proof.
    intros Ht. unfold x_sched_all. induction ws as [|w ws IH]; intros a b S; simpl; auto.
    apply IH. apply sched_sim2; auto.
  Qed.

  Lemma sim2_upd a b rid f : sim2 a b ->
    (forall r, xr_clock (f r) = xr_clock r) ->
    (forall r, aok (xr_rest r) -> aok (xr_rest (f r))) ->
    sim2 (upd_rout a rid f) (upd_rout b rid f).
  Proof.
    intros S Hfc Hfa. pose proof S as S'. unpack2 S'. unfold upd_rout. rewrite H.
    destruct (nth_error (x_routs a) rid) as [r|] eqn:E; auto.
    ssplit2.
    - destruct (rinv2_nth _ _ _ R E) as (X & Y & Z). apply rinv2_set; auto; rewrite Hfc; auto.
    - intros e He. simpl in He. destruct (QC e He) as (r0 & A1 & A2). simpl.
      destruct (Nat.eq_dec rid (e_rid e)) as [Heq|Hne].
      + rewrite <- Heq in *. rewrite E in A1. inversion A1; subst r0. exists (f r). split; [eapply set_nth_same; eauto|]. rewrite Hfc. exact A2.
      + exists r0. split; auto. rewrite set_nth_other; auto.
  Qed.

  Definition psim2 (ra rb : xstate * bool) : Prop := sim2 (fst ra) (fst rb) /\ snd ra = snd rb.

  Lemma x_send_sim2 a b rid k T T' lat es : sim2 a b -> T' == T + t0 -> 0 <= T ->
    psim2 (x_send None a rid k T lat es) (x_send (Some off) b rid k T' lat es).
  Proof.
    intros S Ht Hn. pose proof S as S'. unpack2 S'. unfold psim2, x_send. cbn [fst snd].
    destruct (send_sim2 t0 off (x_n a) (x_n b) (rid, k) T T' lat es N Ht Hn Ht0 Hoff) as [A B].
    split; auto. apply sim2_set_n; auto.
    - unfold nrt_send. destruct (stamp_bundle (send_mode None (Some (rid, k))) T lat es); simpl; auto.
    - intros e He. left. unfold nrt_send in He. destruct (stamp_bundle (send_mode None (Some (rid, k))) T lat es); simpl in He; auto.
  Qed.

  Lemma x_play_sim2 a b rid k T T' bd c : sim2 a b -> T' == T + t0 -> c <> CApp ->
    psim2 (x_play true None p a rid k T bd c) (x_play true (Some off) p b rid k T' bd c).
  Proof.
    intros S Ht Hc. pose proof S as S'. unpack2 S'. unfold psim2, x_play.
    destruct (nth_error (xp_bodies p) bd) as [body|] eqn:Eb; [|split; auto].
    rewrite (tcs_rel_clock_ok t0 _ _ c (n2_tcs _ _ _ N)), H.
    assert (Em : clock_ok_mode (Some off) c = true) by (destruct c; auto; congruence).
    assert (En : clock_ok_mode None c = true) by (destruct c; reflexivity).
    rewrite Em, En, !andb_true_r.
    destruct (clock_ok (n_tcs (x_n a)) c) eqn:Eok; [|split; auto].
    cbn [fst snd]. split; auto.
    unfold sim2. cbn [x_n x_routs x_gens x_conds x_flows x_vals set_n set_xrouts].
    split; [|split; [rewrite xsp_tcs; exact HL|repeat split; auto]].
    - apply sched_play_sim2; auto. apply add_log_sim2; auto. simpl. repeat split; auto.
    - unfold rinv2. apply Forall_app. split; auto. constructor; auto. simpl. split; auto. split.
      + rewrite <- HL, <- clock_ok_cok. exact Eok.
      + destruct Hp as [Hb' _]. rewrite Forall_forall in Hb'. apply Hb'. eapply nth_error_In; eauto.
    - intros e He. cbn [x_n x_routs set_n set_xrouts] in *. destruct (xsp_in _ _ _ _ _ _ _ He) as [[E1 E2]|Ho].
      + cbn [x_routs set_n set_xrouts]. rewrite E1, E2. eexists. split; [rewrite nth_error_app2 by lia; rewrite Nat.sub_diag; reflexivity|reflexivity].
      + simpl in Ho. destruct (QC e Ho) as (r0 & A1 & A2). exists r0. cbn [x_routs set_n set_xrouts]. split; auto.
        rewrite nth_error_app1; auto. apply nth_error_Some. rewrite A1. discriminate.
  Qed.

  Lemma x_tempo_sim2 a b rid k T T' i v : sim2 a b -> T' == T + t0 ->
    psim2 (x_tempo None a rid k T i v) (x_tempo (Some off) b rid k T' i v).
  Proof.
    intros S Ht. pose proof S as S'. unpack2 S'. unfold psim2, x_tempo. cbn [fst snd].
    destruct (tempo_sim2 t0 off (x_n a) (x_n b) (Some (rid, k)) T T' i v N Ht) as [A B].
    split; auto. apply sim2_set_n; auto.
    - unfold nrt_set_tempo. destruct (nth_error (n_tcs (x_n a)) i); [|simpl; auto].
      destruct (tc_set_tempo t T v); [|simpl; auto]. cbn [fst qk_tempo_frozen repaired n_tcs add_log].
      match goal with |- context [retime ?s ?j] => destruct (retime_proj s j) as (_ & _ & P3 & _) end.
      rewrite P3. cbn [n_tcs set_f11 set_tcs]. rewrite set_nth_length. exact HL.
    - intros e He. unfold nrt_set_tempo in He. destruct (nth_error (n_tcs (x_n a)) i); [|simpl in He; auto].
      destruct (tc_set_tempo t T v); [|simpl in He; auto]. cbn [fst qk_tempo_frozen repaired n_q add_log] in He.
      destruct (retime_in _ _ _ He) as [[Hin _]|(e0 & Hin & Hce & R1 & R2 & _)]; [left; exact Hin|].
      right. simpl in Hin. destruct (QC e0 Hin) as (r0 & A1 & A2). exists r0. rewrite R1, R2. split; auto.
      rewrite A2. exact Hce.
  Qed.

  Lemma x_setbeats_sim2 a b rid k T T' i v : sim2 a b -> T' == T + t0 ->
    psim2 (x_setbeats None a rid k T i v) (x_setbeats (Some off) b rid k T' i v).
  Proof.
    intros S Ht. pose proof S as S'. unpack2 S'. unfold psim2, x_setbeats.
    pose proof (tcs_rel_nth t0 _ _ i (n2_tcs _ _ _ N)) as Hn.
    destruct (nth_error (n_tcs (x_n a)) i) as [ta|] eqn:Ea; destruct (nth_error (n_tcs (x_n b)) i) as [tb|] eqn:Eb; try tauto; try (split; auto; fail).
    cbn [fst snd]. split; auto.
    pose proof (n2_a _ _ _ N) as [W P E].
    assert (Wta : wf_tc ta) by (unfold wf_tcs in W; rewrite Forall_forall in W; apply W; eapply nth_error_In; eauto).
    assert (Pta : pos_tc ta) by (unfold pos_tcs in P; rewrite Forall_forall in P; apply P; eapply nth_error_In; eauto).
    destruct (tc_set_beats_facts t0 ta tb T T' v Hn Wta Pta Ht) as (R1 & R2 & R3).
    apply sim2_set_n; auto.
    - apply (retime_sim2 t0 _ _ i ta tb); auto. simpl. auto.
    - cbn [n_tcs add_log].
      match goal with |- context [retime ?s ?j] => destruct (retime_proj s j) as (_ & _ & P3 & _) end.
      rewrite P3. cbn [n_tcs set_tcs]. rewrite set_nth_length. exact HL.
    - intros e He. cbn [n_q add_log] in He.
      destruct (retime_in _ _ _ He) as [[Hin _]|(e0 & Hin & Hce & R1' & R2' & _)]; [left; exact Hin|].
      right. simpl in Hin. destruct (QC e0 Hin) as (r0 & A1 & A2). exists r0. rewrite R1', R2'. split; auto.
      rewrite A2. exact Hce.
  Qed.

  Lemma x_seed_sim2 a b rid s : sim2 a b -> psim2 (x_seed a rid s) (x_seed b rid s).
  Proof.
    intros S. pose proof S as S'. unpack2 S'. unfold psim2, x_seed. cbn [fst snd]. split; auto. rewrite H0.
    apply sim2_upd; [|intros r; reflexivity|intros r Hr; exact Hr]. ssplit2.
  Qed.
  Lemma x_draw_sim2 a b rid k req : sim2 a b -> psim2 (x_draw gen a rid k req) (x_draw gen b rid k req).
  Proof.
    intros S. pose proof S as S'. unpack2 S'. unfold psim2, x_draw. rewrite H, H0.
    destruct (nth_error (x_routs a) rid) as [r|]; [|split; auto].
    destruct (nth_error (x_gens a) (xr_gen r)) as [[seed hist]|]; [|split; auto].
    cbn [fst snd]. split; auto. ssplit2. congruence.
  Qed.
  Lemma x_signal_sim2 a b T T' c : sim2 a b -> T' == T + t0 ->
    psim2 (x_signal true None a T c) (x_signal true (Some off) b T' c).
  Proof.
    intros S Ht. pose proof S as S'. unpack2 S'. unfold psim2, x_signal. rewrite H1.
    destruct (nth_error (x_conds a) c) as [[t ws]|]; [|split; auto].
    destruct t; [|split; auto]. cbn [fst snd]. split; auto.
    apply sched_all_sim2; auto. ssplit2.
  Qed.
  Lemma x_settest_sim2 a b c t : sim2 a b -> psim2 (x_settest a c t) (x_settest b c t).
  Proof.
    intros S. pose proof S as S'. unpack2 S'. unfold psim2, x_settest. rewrite H1.
    destruct (nth_error (x_conds a) c) as [[t' ws]|]; [|split; auto].
    cbn [fst snd]. split; auto. ssplit2.
  Qed.
  Lemma x_flowset_sim2 a b T T' f v : sim2 a b -> T' == T + t0 ->
    psim2 (x_flowset true None a T f v) (x_flowset true (Some off) b T' f v).
  Proof.
    intros S Ht. pose proof S as S'. unpack2 S'. unfold psim2, x_flowset. rewrite H2.
    destruct (nth_error (x_flows a) f) as [[[x|] ws]|]; try (split; auto; fail).
    cbn [fst snd]. split; auto. apply sched_all_sim2; auto. ssplit2.
  Qed.
  Lemma x_flowread_sim2 a b rid k f : sim2 a b -> psim2 (x_flowread a rid k f) (x_flowread b rid k f).
  Proof.
    intros S. pose proof S as S'. unpack2 S'. unfold psim2, x_flowread. rewrite H2.
    destruct (nth_error (x_flows a) f) as [[v ws]|]; [|split; auto].
    cbn [fst snd]. split; auto. ssplit2. congruence.
  Qed.
  Lemma x_pause_sim2 a b rid bd : sim2 a b -> psim2 (x_pause a rid bd) (x_pause b rid bd).
  Proof.
    intros S. pose proof S as S'. unpack2 S'. unfold psim2, x_pause. rewrite H.
    destruct (latest bd (x_routs a)) as [t|]; [|split; auto].
    destruct (Nat.eqb t rid); [split; auto|]. cbn [fst snd]. split; auto.
    apply sim2_upd; auto; intros r; destruct (xr_st r); auto.
  Qed.
  Lemma x_resume_sim2 a b rid T T' bd : sim2 a b -> T' == T + t0 ->
    psim2 (x_resume true None a rid T bd) (x_resume true (Some off) b rid T' bd).
  Proof.
    intros S Ht. pose proof S as S'. unpack2 S'. unfold psim2, x_resume. rewrite H.
    destruct (latest bd (x_routs a)) as [t|]; [|split; auto].
    destruct (Nat.eqb t rid); [split; auto|].
    destruct (nth_error (x_routs a) t) as [r|]; [|split; auto].
    destruct (xr_st r); try (split; auto; fail).
    cbn [fst snd]. split; auto. apply sched_sim2; auto. apply sim2_upd; auto.
  Qed.

  (* ---- a segment ---------------------------------------------------------------------------------------- *)
  Lemma xrun_sim2 cclk : cclk <> CApp -> forall acts a b rid k T T', sim2 a b -> T' == T + t0 -> 0 <= T -> aok acts ->
    sim2 (fst (xrun gen true None p a rid k T cclk acts)) (fst (xrun gen true (Some off) p b rid k T' cclk acts)) /\
    snd (xrun gen true None p a rid k T cclk acts) = snd (xrun gen true (Some off) p b rid k T' cclk acts) /\
    oc_ok (snd (xrun gen true None p a rid k T cclk acts)).
  Proof.
    intros Hcc. induction acts as [|x acts IH]; intros a b rid k T T' S Ht Hn Hok.
    - simpl. auto.
    - inversion Hok as [|? ? Hx Hrest]; subst.
      assert (STEP : forall ra rb, psim2 ra rb ->
                sim2 (fst (if snd ra then xrun gen true None p (fst ra) rid k T cclk acts else (fst ra, XORaise)))
                     (fst (if snd rb then xrun gen true (Some off) p (fst rb) rid k T' cclk acts else (fst rb, XORaise))) /\
                snd (if snd ra then xrun gen true None p (fst ra) rid k T cclk acts else (fst ra, XORaise)) =
                snd (if snd rb then xrun gen true (Some off) p (fst rb) rid k T' cclk acts else (fst rb, XORaise)) /\
                oc_ok (snd (if snd ra then xrun gen true None p (fst ra) rid k T cclk acts else (fst ra, XORaise)))).
      { intros ra rb [A B]. rewrite <- B. destruct (snd ra).
        - apply IH; auto.
        - simpl. auto. }
      pose proof S as S'. unpack2 S'.
      destruct x; cbn [xrun].
      + simpl. simpl in Hx. auto.
      + apply STEP. apply x_send_sim2; auto.
      + apply STEP. apply x_play_sim2; auto.
      + apply STEP. apply x_play_sim2; auto.
      + apply STEP. apply x_tempo_sim2; auto.
      + apply STEP. apply x_setbeats_sim2; auto.
      + apply STEP. apply x_seed_sim2; auto.
      + apply STEP. apply x_draw_sim2; auto.
      + rewrite H1. destruct (nth_error (x_conds a) c) as [[t ws]|]; [|simpl; auto].
        destruct t; simpl; [split; auto; split; auto; split; auto; lra|].
        split; auto. ssplit2.
      + apply STEP. apply x_signal_sim2; auto.
      + apply STEP. apply x_settest_sim2; auto.
      + rewrite H2. destruct (nth_error (x_flows a) f) as [[[v|] ws]|]; simpl; auto.
        * split; auto. split; auto. split; [lra|]. constructor; simpl; auto.
        * split; [|split; auto; constructor; simpl; auto]. ssplit2.
      + apply STEP. apply x_flowread_sim2; auto.
      + apply STEP. apply x_flowset_sim2; auto.
      + apply STEP. apply x_pause_sim2; auto.
      + apply STEP. apply x_resume_sim2; auto.
      + simpl. auto.
      + simpl. auto.
  Qed.
End XSim2.

(* ---- popping the head of a clock's entries -------------------------------------------------------------------- *)
Lemma pop_clock_spec c : forall q e rest, pop_clock c q = Some (e, rest) ->
  is_clock c e = true /\ filter (is_clock c) q = e :: filter (is_clock c) rest /\
  (forall c', c' <> c -> filter (is_clock c') rest = filter (is_clock c') q) /\
  (forall x, In x rest -> In x q) /\ In e q.
Proof.
  induction q as [|y q IH]; intros e rest H; simpl in H; [discriminate|].
  destruct (is_clock c y) eqn:Ey.
  - inversion H; subst. simpl. rewrite Ey. repeat split; auto.
    intros c' Hne. destruct (is_clock c' e) eqn:E'; auto.
    apply is_clock_true in Ey. apply is_clock_true in E'. congruence.
  - destruct (pop_clock c q) as [[x r']|] eqn:E; [|discriminate]. inversion H; subst.
    destruct (IH _ _ eq_refl) as (A & B & C & D & F). simpl. rewrite Ey. repeat split; auto.
    + intros c' Hne. rewrite (C c' Hne). reflexivity.
    + intros x [<-|Hx]; auto.
Qed.
Lemma pop_clock_of_filter c : forall q e l, filter (is_clock c) q = e :: l -> exists rest, pop_clock c q = Some (e, rest).
Proof.
  induction q as [|y q IH]; intros e l H; simpl in *; [discriminate|].
  destruct (is_clock c y) eqn:Ey.
  - inversion H; subst. eexists; reflexivity.
  - destruct (IH e l H) as (rest & E). rewrite E. eexists; reflexivity.
Qed.
Lemma pop_clock_sorted c : forall q e rest, pop_clock c q = Some (e, rest) -> ksorted e_time e_cnt q -> ksorted e_time e_cnt rest.
Proof.
  unfold ksorted. induction q as [|y q IH]; intros e rest H Hs; simpl in H; [discriminate|].
  inversion Hs as [|? ? Hs' Hy]; subst. destruct (is_clock c y).
  - inversion H; subst. exact Hs'.
  - destruct (pop_clock c q) as [[x r']|] eqn:E; [|discriminate]. inversion H; subst.
    constructor; [eapply IH; eauto|]. destruct (pop_clock_spec c q e r' E) as (_ & _ & _ & Sub & _).
    rewrite Forall_forall in *. intros z Hz. apply Hy. apply Sub. exact Hz.
Qed.
Lemma find_rid_some rid : forall q e, In e q -> e_rid e = rid -> exists x, find_rid rid q = Some x /\ In x q /\ e_rid x = rid.
Proof.
  induction q as [|y q IH]; intros e Hin He; [inversion Hin|]. simpl.
  destruct (Nat.eqb (e_rid y) rid) eqn:Ey.
  - exists y. apply Nat.eqb_eq in Ey. simpl; auto.
  - destruct Hin as [->|Hin]; [apply Nat.eqb_neq in Ey; congruence|].
    destruct (IH e Hin He) as (x & A & B & C). exists x. simpl; auto.
Qed.
Lemma find_rid_spec rid : forall q x, find_rid rid q = Some x -> In x q /\ e_rid x = rid.
Proof.
  induction q as [|y q IH]; intros x H; simpl in H; [discriminate|].
  destruct (Nat.eqb (e_rid y) rid) eqn:Ey.
  - inversion H; subst. apply Nat.eqb_eq in Ey. simpl; auto.
  - destruct (IH x H). simpl; auto.
Qed.

(* a segment never removes a routine nor moves it to another clock *)
Definition keeps (st st' : xstate) : Prop :=
  forall rid r, nth_error (x_routs st) rid = Some r -> exists r', nth_error (x_routs st') rid = Some r' /\ xr_clock r' = xr_clock r.
Lemma keeps_refl st : keeps st st. Proof. intros rid r H. exists r. auto. Qed.
Lemma keeps_trans a b c : keeps a b -> keeps b c -> keeps a c.
Proof. intros H1 H2 rid r H. destruct (H1 _ _ H) as (r1 & A & B). destruct (H2 _ _ A) as (r2 & C & D). exists r2. split; auto. congruence. Qed.
Lemma keeps_same st st' : x_routs st' = x_routs st -> keeps st st'.
Proof. intros E rid r H. exists r. rewrite E. auto. Qed.
Lemma keeps_upd st rid f : (forall r, xr_clock (f r) = xr_clock r) -> keeps st (upd_rout st rid f).
Proof.
  intros Hf rid0 r0 H. unfold upd_rout. destruct (nth_error (x_routs st) rid) as [r|] eqn:E; [|exists r0; auto].
  simpl. destruct (Nat.eq_dec rid rid0) as [<-|Hne].
  - rewrite E in H. inversion H; subst. exists (f r0). split; [eapply set_nth_same; eauto|apply Hf].
  - exists r0. rewrite set_nth_other; auto.
Qed.
Lemma keeps_sched dd rt st T w : keeps st (x_sched dd rt st T w).
Proof. unfold x_sched. destruct (nth_error (x_routs st) w); [apply keeps_same; reflexivity|apply keeps_refl]. Qed.
Lemma keeps_sched_all dd rt T ws : forall st, keeps st (x_sched_all dd rt st T ws).
Proof.
  unfold x_sched_all. induction ws as [|w ws IH]; intros st; simpl; [apply keeps_refl|].
  eapply keeps_trans; [apply keeps_sched|apply IH].
Qed.
Lemma xrun_keeps gen dd rt p : forall acts st rid k T cclk, keeps st (fst (xrun gen dd rt p st rid k T cclk acts)).
Proof.
  induction acts as [|x acts IH]; intros st rid k T cclk; [apply keeps_refl|].
  assert (STEP : forall r : xstate * bool, keeps st (fst r) ->
            keeps st (fst (if snd r then xrun gen dd rt p (fst r) rid k T cclk acts else (fst r, XORaise)))).
  { intros r Hr. destruct (snd r); [eapply keeps_trans; [exact Hr|apply IH]|exact Hr]. }
  destruct x; cbn [xrun]; try apply keeps_refl; try apply STEP.
  - apply keeps_same. reflexivity.
  - unfold x_play. destruct (nth_error (xp_bodies p) b); [|apply keeps_refl].
    destruct (clock_ok (n_tcs (x_n st)) c && clock_ok_mode rt c); [|apply keeps_refl].
    intros rid0 r0 H. exists r0. simpl. split; auto. rewrite nth_error_app1; auto. apply nth_error_Some. rewrite H. discriminate.
  - unfold x_play. destruct (nth_error (xp_bodies p) b); [|apply keeps_refl].
    destruct (clock_ok (n_tcs (x_n st)) cclk && clock_ok_mode rt cclk); [|apply keeps_refl].
    intros rid0 r0 H. exists r0. simpl. split; auto. rewrite nth_error_app1; auto. apply nth_error_Some. rewrite H. discriminate.
  - apply keeps_same. reflexivity.
  - unfold x_setbeats. destruct (nth_error (n_tcs (x_n st)) i); [apply keeps_same; reflexivity|apply keeps_refl].
  - unfold x_seed. cbn [fst]. eapply keeps_trans; [apply (keeps_same st (set_gens st (x_gens st ++ [(s, [])]))); reflexivity|]. apply keeps_upd. reflexivity.
  - unfold x_draw. destruct (nth_error (x_routs st) rid); [|apply keeps_refl].
    destruct (nth_error (x_gens st) (xr_gen x)) as [[sd h]|]; [apply keeps_same; reflexivity|apply keeps_refl].
  - destruct (nth_error (x_conds st) c) as [[t ws]|]; [|apply keeps_refl]. destruct t; [apply keeps_refl|apply keeps_same; reflexivity].
  - unfold x_signal. destruct (nth_error (x_conds st) c) as [[t ws]|]; [|apply keeps_refl]. destruct t; [|apply keeps_refl].
    cbn [fst]. eapply keeps_trans; [|apply keeps_sched_all]. apply keeps_same; reflexivity.
  - unfold x_settest. destruct (nth_error (x_conds st) c) as [[t' ws]|]; [apply keeps_same; reflexivity|apply keeps_refl].
  - destruct (nth_error (x_flows st) f) as [[[v|] ws]|]; try apply keeps_refl. apply keeps_same; reflexivity.
  - unfold x_flowread. destruct (nth_error (x_flows st) f) as [[v ws]|]; [apply keeps_same; reflexivity|apply keeps_refl].
  - unfold x_flowset. destruct (nth_error (x_flows st) f) as [[[x|] ws]|]; try apply keeps_refl.
    cbn [fst]. eapply keeps_trans; [|apply keeps_sched_all]. apply keeps_same; reflexivity.
  - unfold x_pause. destruct (latest b (x_routs st)); [|apply keeps_refl]. destruct (Nat.eqb n rid); [apply keeps_refl|].
    cbn [fst]. apply keeps_upd. intros r. destruct (xr_st r); reflexivity.
  - unfold x_resume. destruct (latest b (x_routs st)); [|apply keeps_refl]. destruct (Nat.eqb n rid); [apply keeps_refl|].
    destruct (nth_error (x_routs st) n); [|apply keeps_refl]. destruct (xr_st x); try apply keeps_refl.
    cbn [fst]. eapply keeps_trans; [|apply keeps_sched]. apply keeps_upd; reflexivity.
Qed.

Section XExec2.
  Context (gen : Z -> list Z -> Z -> Z) (off : Z) (p : xprog) (t0 : Q) (L : nat).
  Hypothesis Hp : prog_ok2 p.
  Hypothesis Ht0 : 0 <= t0.
  Hypothesis Hoff : (0 <= off)%Z.

  Lemma wake_sim2 a b ea eb : sim2 t0 L a b -> ent_rel t0 ea eb ->
    e_time ea == b2s (n_tcs (x_n a)) (e_clock ea) (e_beats ea) -> e_clock ea <> CApp ->
    clock_ok (n_tcs (x_n a)) (e_clock ea) = true -> 0 <= e_time ea ->
    (exists r, nth_error (x_routs a) (e_rid ea) = Some r /\ xr_clock r = e_clock ea) ->
    sim2 t0 L (xnrt_wake gen true p a ea) (xrt_wake gen off p b eb).
  Proof.
    intros Sm (E1 & E2 & E3) Hk Hca Hok Hn (r & Er & Erc). pose proof Sm as S'.
    destruct S' as (N & HL & H & H0 & H1 & H2 & H3 & R & QC).
    unfold xnrt_wake, xrt_wake. rewrite E1, E2, H, Er.
    assert (S0 : forall m m', sim2 t0 L (set_n a (set_mtime (x_n a) m)) (set_n b (set_mtime (x_n b) m'))).
    { intros. apply sim2_set_n; auto. apply set_mtime_sim2; auto. }
    destruct (rinv2_nth L _ _ _ R Er) as (Rc & Rk & Ra).
    destruct (xr_st r); try apply S0.
    set (c := e_clock ea) in *. set (T := e_time ea) in *. cbn [n_tcs set_mtime].
    set (T' := Qred (b2s (n_tcs (x_n b)) c (e_time eb))).
    pose proof (n2_tcs _ _ _ N) as TR. pose proof (n2_a _ _ _ N) as AS.
    assert (HT : T' == T + t0).
    { unfold T'. rewrite Qred_correct. destruct c as [| |i] eqn:Ec.
      - simpl. exact E3.
      - congruence.
      - pose proof (tcs_rel_b2s t0 _ _ (CTempo i) (e_beats ea) (e_time eb) TR Hok E3) as Hb. cbv beta iota in Hb.
        rewrite Hb, <- Hk. reflexivity. }
    set (beats := Qred (s2b (n_tcs (x_n a)) c T)).
    assert (Hbeats : beats == e_beats ea).
    { unfold beats. rewrite Qred_correct. rewrite (s2b_comp _ _ _ _ Hk). apply s2b_b2s. exact (as_wf _ AS). }
    set (a1 := set_n a (add_log (set_mtime (x_n a) T) (EvResume (e_rid ea) (xr_k r) c T beats))).
    set (b1 := set_n b (add_log (set_mtime (x_n b) T') (EvResume (e_rid ea) (xr_k r) c T' (Qred (s2b (n_tcs (x_n b)) c T'))))).
    assert (S1 : sim2 t0 L a1 b1).
    { apply sim2_set_n; auto. apply add_log_sim2; [apply set_mtime_sim2; auto|]. simpl. auto. }
    destruct (xrun_sim2 gen off p t0 L Hp Ht0 Hoff c Hca (xr_rest r) a1 b1 (e_rid ea) (xr_k r) T T' S1 HT Hn Ra) as (A & B & C).
    pose proof (xrun_keeps gen true None p (xr_rest r) a1 (e_rid ea) (xr_k r) T c) as Hkeep.
    destruct (xrun gen true None p a1 (e_rid ea) (xr_k r) T c (xr_rest r)) as [a2 oc].
    destruct (xrun gen true (Some off) p b1 (e_rid ea) (xr_k r) T' c (xr_rest r)) as [b2 oc'].
    cbn [fst snd] in A, B, C. subst oc'. unfold x_after.
    assert (Upd : forall rest' st', aok rest' ->
              sim2 t0 L (upd_rout a2 (e_rid ea) (with_rest rest' (S (xr_k r)) st')) (upd_rout b2 (e_rid ea) (with_rest rest' (S (xr_k r)) st'))).
    { intros rest' st' Hr. apply sim2_upd; auto. }
    destruct oc as [d rest'|rest'| |]; simpl in C.
    - destruct C as [Cd Cr]. pose proof (Upd rest' RSusp Cr) as U. pose proof U as U'.
      destruct U' as (N' & HL' & _ & _ & _ & _ & _ & R' & QC').
      apply sim2_set_n; auto.
      + apply xpush_sim2; auto.
        * rewrite clock_ok_cok, HL'. rewrite clock_ok_cok, HL in Hok. exact Hok.
        * reflexivity.
        * destruct c as [| |i] eqn:Ec.
          -- simpl. unfold beats. rewrite Qred_correct. simpl. rewrite E3. unfold T. ring.
          -- congruence.
          -- rewrite E3, Hbeats. reflexivity.
      + intros e He. destruct (xpush_in _ _ _ _ _ _ He) as [[X1 X2]|Ho]; auto.
        right. (* the routine is still there, on the same clock *)
        destruct (Hkeep (e_rid ea) r Er) as (r2 & K1 & K2).
        destruct (keeps_upd a2 (e_rid ea) (with_rest rest' (S (xr_k r)) RSusp) (fun _ => eq_refl) _ _ K1) as (r3 & K3 & K4).
        exists r3. rewrite X1, X2. split; auto. rewrite K4, K2. exact Erc.
    - apply Upd. exact C.
    - pose proof (Upd [] RDone (Forall_nil _)) as U. pose proof U as U'. destruct U' as (N' & HL' & _).
      apply sim2_set_n; auto. apply add_log_sim2; auto. simpl. auto.
    - pose proof (Upd [] RDone (Forall_nil _)) as U. pose proof U as U'. destruct U' as (N' & HL' & _).
      apply sim2_set_n; auto. apply add_log_sim2; auto. simpl. auto.
  Qed.
End XExec2.

Section XRun2.
  Context (gen : Z -> list Z -> Z -> Z) (off : Z) (p : xprog) (t0 : Q) (L : nat).
  Hypothesis Hp : prog_ok2 p.
  Hypothesis Ht0 : 0 <= t0.
  Hypothesis Hoff : (0 <= off)%Z.

  (* a step the real-time clocks accept is a step of the non-real-time semantics on the related state *)
  Lemma step_sim2 a s rid t f : sim2 t0 L a (xs s) -> xs_bad (xrt_step gen off p s (rid, t)) = false ->
    exists ea a', xnrt_step_rid gen p (a, f) rid = (a', f && Qle_bool 0 (e_time ea)) /\
      (0 <= e_time ea -> sim2 t0 L a' (xs (xrt_step gen off p s (rid, t)))).
  Proof.
    intros Sm Hs. unfold xrt_step in *. unfold xnrt_step_rid. cbn [fst snd].
    pose proof Sm as S'. destruct S' as (N & HL & H & H0 & H1 & H2 & H3 & R & QC).
    destruct N as [QA QB AS TR QR LR].
    destruct (find_rid rid (n_q (x_n (xs s)))) as [e0b|] eqn:Ef; [|simpl in Hs; discriminate].
    destruct (pop_clock (e_clock e0b) (n_q (x_n (xs s)))) as [[eb restb]|] eqn:Ep; [|simpl in Hs; discriminate].
    destruct (Nat.eqb (e_rid eb) rid) eqn:Er; [|simpl in Hs; discriminate].
    apply Nat.eqb_eq in Er.
    set (c := e_clock e0b) in *.
    destruct (pop_clock_spec c _ _ _ Ep) as (Pc & Pf & Po & Psub & Pin).
    pose proof (QR c) as QRc. rewrite Pf in QRc.
    inversion QRc as [|ea eb' la lb' Hrel Hla Ea Eb]; subst eb' lb'.
    destruct (pop_clock_of_filter c _ _ _ (eq_sym Ea)) as (resta & Epa).
    destruct (pop_clock_spec c _ _ _ Epa) as (Pca & Pfa & Poa & Psuba & Pina).
    pose proof Hrel as (R1 & R2 & R3).
    assert (Hrid : e_rid ea = rid) by congruence.
    apply is_clock_true in Pc. apply is_clock_true in Pca.
    destruct (find_rid_some rid _ ea Pina Hrid) as (x & Fx & Xin & Xrid).
    destruct (QC x Xin) as (rx & Ax1 & Ax2). destruct (QC ea Pina) as (re & Ae1 & Ae2).
    assert (Hcx : e_clock x = c).
    { rewrite <- Ax2. rewrite Xrid, <- Hrid in Ax1. rewrite Ae1 in Ax1. inversion Ax1; subst. rewrite Ae2. exact Pca. }
    rewrite Fx, Hcx, Epa. rewrite Hrid, Nat.eqb_refl.
    exists ea, (xnrt_wake gen true p (set_n a (set_q (x_n a) resta)) ea). split; [reflexivity|].
    intros Hn. cbn [xs].
    destruct AS as [W P E]. destruct (E ea Pina) as (K1 & K2 & K3).
    apply wake_sim2; auto.
    apply sim2_set_n; auto; try (intros e He; left; apply Psuba; exact He).
      destruct QA as [SA CA]. destruct QB as [SB CB]. constructor; cbn [n_q n_qcnt n_tcs n_log set_q]; auto.
        * split; [exact (pop_clock_sorted _ _ _ _ Epa SA)|]. intros e He. apply CA. apply Psuba. exact He.
        * split; [exact (pop_clock_sorted _ _ _ _ Ep SB)|]. intros e He. apply CB. apply Psub. exact He.
        * constructor; auto; intros e He; apply E; apply Psuba; exact He.
        * intros c'. destruct (clock_eqb c' c) eqn:Ec.
          -- assert (c' = c) as ->.
             { destruct c', c; simpl in Ec; try discriminate; auto. apply Nat.eqb_eq in Ec. congruence. }
             assert (El : filter (is_clock c) resta = la) by (rewrite Pfa in Ea; inversion Ea; reflexivity).
             rewrite El. exact Hla.
          -- assert (Hne : c' <> c).
             { intros ->. destruct c; simpl in Ec; try discriminate. rewrite Nat.eqb_refl in Ec. discriminate. }
             rewrite (Poa c' Hne), (Po c' Hne). apply QR.
  Qed.

  Lemma flag_sticky rids : forall s, snd s = false -> snd (fold_left (xnrt_step_rid gen p) rids s) = false.
  Proof.
    induction rids as [|r l IH]; intros s H; simpl; auto. apply IH. unfold xnrt_step_rid.
    destruct (find_rid r (n_q (x_n (fst s)))); auto. destruct (pop_clock (e_clock e) (n_q (x_n (fst s)))) as [[e' rest]|]; auto.
    destruct (Nat.eqb (e_rid e') r); auto. simpl. rewrite H. reflexivity.
  Qed.
  Lemma bad_sticky2 sched : forall s, xs_bad s = true -> xs_bad (fold_left (xrt_step gen off p) sched s) = true.
  Proof.
    induction sched as [|ch l IH]; intros s H; simpl; auto. apply IH.
    destruct ch as [rid t]. unfold xrt_step.
    destruct (find_rid rid (n_q (x_n (xs s)))) as [e0|]; simpl; auto.
    destruct (pop_clock (e_clock e0) (n_q (x_n (xs s)))) as [[e rest]|]; simpl; auto.
    destruct (Nat.eqb (e_rid e) rid); simpl; auto.
  Qed.

  Lemma run_sim2 : forall sched a f s, sim2 t0 L a (xs s) ->
    xs_bad (fold_left (xrt_step gen off p) sched s) = false ->
    snd (fold_left (xnrt_step_rid gen p) (map fst sched) (a, f)) = true ->
    sim2 t0 L (fst (fold_left (xnrt_step_rid gen p) (map fst sched) (a, f))) (xs (fold_left (xrt_step gen off p) sched s)).
  Proof.
    induction sched as [|[rid t] l IH]; intros a f s Sm Hb Hf; [exact Sm|].
    cbn [map fst fold_left] in Hb, Hf |- *.
    assert (Hs : xs_bad (xrt_step gen off p s (rid, t)) = false).
    { destruct (xs_bad (xrt_step gen off p s (rid, t))) eqn:E; auto. rewrite (bad_sticky2 l _ E) in Hb. discriminate. }
    destruct (step_sim2 a s rid t f Sm Hs) as (ea & a' & Est & Hsim).
    rewrite Est in *.
    assert (Hfl : f && Qle_bool 0 (e_time ea) = true).
    { destruct (f && Qle_bool 0 (e_time ea)) eqn:E; auto. rewrite (flag_sticky (map fst l) (a', false) eq_refl) in Hf. discriminate. }
    rewrite Hfl in *. apply andb_true_iff in Hfl. destruct Hfl as [_ Hq]. apply Qle_bool_iff in Hq.
    apply IH; auto.
  Qed.
End XRun2.

(* ---- the initial states ------------------------------------------------------------------------------------ *)
Lemma tcs_rel_new t0 l : tcs_rel t0 (map (fun t => tc_new t 0) l) (map (fun t => tc_new t t0) l).
Proof.
  unfold tcs_rel. induction l as [|x l IH]; simpl; constructor; auto.
  unfold tc_rel, tc_new. destruct (Qeq_bool x 0); cbn; repeat split; try reflexivity; ring.
Qed.
Lemma init_sim2 p t0 : prog_ok2 p -> 0 <= t0 -> sim2 t0 (length (xp_tempos p)) (xnrt_init p) (xs (xrt_init p t0)).
Proof.
  intros [Hbod Htem] Ht0. unfold xnrt_init, xrt_init, x_init. cbn [xs].
  set (n1a := set_mtime (set_tcs (score_add (mkN [] 0 [] [] 0 [] 0 [] false) 0 (SBundle false 0 0 [SMsg gnew_msg]))
                                 (map (fun t => tc_new t 0) (xp_tempos p))) 0).
  set (n1b := set_mtime (set_tcs (mkN [] 0 [] [] 0 [] 0 [] false) (map (fun t => tc_new t t0) (xp_tempos p))) t0).
  assert (N1 : nsim2 t0 n1a n1b).
  { constructor; cbn.
    - split; [constructor|intros e []].
    - split; [constructor|intros e []].
    - constructor; cbn.
      + unfold wf_tcs. apply Forall_forall. intros t Ht. apply in_map_iff in Ht. destruct Ht as (x & <- & _). apply tc_new_wf.
      + unfold pos_tcs. apply Forall_forall. intros t Ht. apply in_map_iff in Ht. destruct Ht as (x & <- & Hx). apply tc_new_pos.
        rewrite Forall_forall in Htem. auto.
      + intros e [].
    - apply tcs_rel_new.
    - intros c. constructor.
    - constructor. }
  assert (Hlen : length (n_tcs n1a) = length (xp_tempos p)) by (cbn; apply map_length).
  destruct (nth_error (xp_bodies p) 0) as [body|] eqn:Eb.
  - unfold sim2. cbn [x_n x_routs x_gens x_conds x_flows x_vals].
    split; [|split; [rewrite xsp_tcs; exact Hlen|repeat split; auto]].
    + fold n1a. fold n1b. apply sched_play_sim2; auto; [|ring|discriminate].
      apply add_log_sim2; auto. simpl. repeat split; auto. ring.
    + constructor; [|constructor]. simpl. repeat split; auto; [discriminate|].
      rewrite Forall_forall in Hbod. apply Hbod. eapply nth_error_In; eauto.
    + intros e He. cbn [x_n x_routs] in *. fold n1a in He. destruct (xsp_in _ _ _ _ _ _ _ He) as [[E1 E2]|[]].
      rewrite E1, E2. eexists. split; reflexivity.
  - unfold sim2. cbn [x_n x_routs x_gens x_conds x_flows x_vals]. split; [exact N1|split; [exact Hlen|repeat split; auto]].
    + constructor.
    + intros e [].
Qed.

Lemma obs_of_sim2 t0 L a b : sim2 t0 L a b -> obs_of t0 b = obs_of 0 a.
Proof.
  intros (N & _ & _ & _ & _ & _ & Hv & _). pose proof (n2_log _ _ _ N) as Hl. unfold obs_of.
  pose proof (Forall2_rev _ _ _ Hl) as Hr.
  f_equal.
  - f_equal. symmetry. eapply Forall2_flat_map; [exact Hr|].
    intros ev ev' He. destruct ev, ev'; simpl in He; try tauto; unfold emission; auto.
    destruct He as (-> & -> & -> & He). destruct origin0 as [o|]; auto.
    destruct res as [sb|], res0 as [sb'|]; simpl in He; try tauto; auto.
    rewrite (Qred_shift _ _ _ He). reflexivity.
  - symmetry. eapply Forall2_flat_map; [exact Hr|].
    intros ev ev' He. destruct ev, ev'; simpl in He; try tauto; unfold resumption; auto.
    destruct He as (-> & -> & _ & He). rewrite (Qred_shift _ _ _ He). reflexivity.
  - congruence.
  - symmetry. eapply Forall2_flat_map; [exact Hr|].
    intros ev ev' He. destruct ev, ev'; simpl in He; try tauto; unfold ending; auto.
    destruct He as (-> & -> & ->). reflexivity.
Qed.

(* ---- the statements -------------------------------------------------------------------------------------------- *)
Lemma rt_is_nrt_in_that_order gen off p t0 sched : prog_ok2 p -> 0 <= t0 -> (0 <= off)%Z ->
  xs_bad (xrt_run gen off p t0 sched) = false ->
  snd (xnrt_follow gen p (map fst sched)) = true ->
  obs_rt gen off p t0 sched = obs_of 0 (fst (xnrt_follow gen p (map fst sched))).
Proof.
  intros Hp Ht Ho Hb Hf. unfold obs_rt. apply (obs_of_sim2 t0 (length (xp_tempos p))).
  unfold xrt_run, xnrt_follow in *. apply run_sim2; auto. apply init_sim2; auto.
Qed.

Lemma follow_order gen p : forall n st f,
  fst (fold_left (xnrt_step_rid gen p) (xnrt_order gen p n st) (st, f)) = xnrt_loop gen true p n st.
Proof.
  induction n as [|n IH]; intros st f; simpl; auto.
  destruct (n_q (x_n st)) as [|e rest] eqn:Eq; simpl; auto.
  unfold xnrt_step_rid at 2. cbn [fst snd]. rewrite Eq. simpl. rewrite Nat.eqb_refl.
  assert (Ec : is_clock (e_clock e) e = true) by (apply is_clock_true; reflexivity).
  rewrite Ec, Nat.eqb_refl. apply IH.
Qed.

Lemma rt_nrt_agree_ordered gen off p t0 sched : prog_ok2 p -> 0 <= t0 -> (0 <= off)%Z ->
  xs_bad (xrt_run gen off p t0 sched) = false ->
  map fst sched = xnrt_order gen p (length sched) (xnrt_init p) ->
  snd (xnrt_follow gen p (map fst sched)) = true ->
  obs_rt gen off p t0 sched = obs_nrt gen p (length sched).
Proof.
  intros Hp Ht Ho Hb Hord Hf. rewrite (rt_is_nrt_in_that_order gen off p t0 sched); auto.
  unfold obs_nrt, xnrt_follow. rewrite Hord. rewrite follow_order. reflexivity.
Qed.

(* the observation of a real-time execution depends on the oracle ONLY through the order of the wake-ups: not on the start
   instant, the timetag offset or the physical clock readings *)
Lemma rt_depends_only_on_order gen off1 off2 p t1 t2 s1 s2 : prog_ok2 p ->
  0 <= t1 -> 0 <= t2 -> (0 <= off1)%Z -> (0 <= off2)%Z ->
  xs_bad (xrt_run gen off1 p t1 s1) = false -> xs_bad (xrt_run gen off2 p t2 s2) = false ->
  map fst s1 = map fst s2 -> snd (xnrt_follow gen p (map fst s1)) = true ->
  obs_rt gen off1 p t1 s1 = obs_rt gen off2 p t2 s2.
Proof.
  intros Hp H1 H2 O1 O2 B1 B2 E F.
  rewrite (rt_is_nrt_in_that_order gen off1 p t1 s1), (rt_is_nrt_in_that_order gen off2 p t2 s2); auto; rewrite <- E; auto.
Qed.
