(* C08 -- the trace monitors hold on every accepted trace (SystemClock / TempoClock). *)
From Coq Require Import QArith ZArith List Bool Arith Lia Lqa Permutation Sorting.
Import ListNotations.
Require Import SC3.model.TaskQ SC3.model.RtClock SC3.proofs.C09_order SC3.proofs.C08_sys
  SC3.proofs.C08_facts.
Local Open Scope Q_scope.

(* ---- structural invariant of the queue ------------------------------------------------------ *)
Definition qinv (s : cst) : Prop := sorted ikey (c_q s) /\ NoDup (map itask (c_q s)).

Lemma remove_task_notin : forall k l, ~ In k (map itask (remove_task k l)).
Proof.
  intros k l H. apply in_map_iff in H. destruct H as [x [Hx Hin]].
  unfold remove_task in Hin. apply filter_In in Hin. destruct Hin as [_ Hf].
  rewrite <- Hx in Hf. rewrite Z.eqb_refl in Hf. discriminate.
Qed.

Lemma nodup_map_filter : forall (f : item -> bool) l,
  NoDup (map itask l) -> NoDup (map itask (filter f l)).
Proof.
  intros f l. induction l as [| x r IH]; intro N; simpl.
  - constructor.
  - inversion N as [| a b Na Nr]; subst. destruct (f x); simpl.
    + constructor; [| apply IH; exact Nr].
      intro H. apply Na. apply in_map_iff in H. destruct H as [y [Hy Hin]].
      apply filter_In in Hin. apply in_map_iff. exists y. tauto.
    + apply IH; exact Nr.
Qed.

Lemma q_add_perm : forall t k l n, Permutation (q_add t k l n) ((t, n, k) :: remove_task k l).
Proof. intros. unfold q_add. apply insert_by_perm. Qed.

Lemma q_add_qinv : forall t k l n,
  sorted ikey l -> NoDup (map itask l) ->
  sorted ikey (q_add t k l n) /\ NoDup (map itask (q_add t k l n)).
Proof.
  intros t k l n S N. split.
  - unfold q_add. apply insert_by_sorted. apply sorted_filter. exact S.
  - apply (Permutation_NoDup (l := map itask ((t, n, k) :: remove_task k l))).
    + apply Permutation_map. apply Permutation_sym. apply q_add_perm.
    + simpl. constructor; [apply remove_task_notin |].
      unfold remove_task. apply nodup_map_filter. exact N.
Qed.

Lemma qinv_step : forall s e s', qinv s -> step s e = Some s' -> qinv s'.
Proof.
  intros s e s' [S N] HS. apply step_facts in HS. unfold facts in HS. destruct HS as [_ HS].
  unfold qinv.
  destruct e as [t k | sr | t k | | m | t | to | c | t k | k r | base dd].
  - destruct HS as [Hq _]. rewrite Hq. apply q_add_qinv; assumption.
  - destruct sr; try (destruct HS as [Hq _]; rewrite Hq; split; assumption).
    destruct HS as [_ [Hq _]]. rewrite Hq. split; constructor.
  - destruct HS as [h [r [Hq [Hq' _]]]]. rewrite Hq in *. rewrite Hq'. split.
    + apply (sorted_tail _ _ h). exact S.
    + simpl in N. inversion N; assumption.
  - destruct HS as [Hq _]. rewrite Hq. split; constructor.
  - destruct HS as [Hq _]. rewrite Hq. split; assumption.
  - destruct HS as [Hq _]. rewrite Hq. split; assumption.
  - destruct HS as [Hq _]. rewrite Hq. split; assumption.
  - destruct HS as [Hq _]. rewrite Hq. split; assumption.
  - destruct HS as [h [r [nb [Hq [Hq' _]]]]]. rewrite Hq in *. rewrite Hq'. split.
    + apply (sorted_tail _ _ h). exact S.
    + simpl in N. inversion N; assumption.
  - destruct HS as [nb [t [_ [Hq _]]]]. rewrite Hq. split; assumption.
  - destruct HS as [Hq _]. rewrite Hq. split; assumption.
Qed.

Lemma qinv_init : forall k m, qinv (init k m).
Proof. intros. split; constructor. Qed.

Lemma qinv_run : forall evs s s', qinv s -> run s evs = Some s' -> qinv s'.
Proof. intros evs s s'. apply (run_invariant0 qinv qinv_step). Qed.

(* ---- order: a pop removes the (time, seq)-minimum ----------------------------------------------- *)
Lemma pop_is_minimum : forall s t k s', qinv s -> step s (EPop t k) = Some s' ->
  exists h nb, c_q s = h :: c_q s' /\ itask h = k /\ t == itime h /\
    c_pc s = PLoop3 nb /\ itime h <= nb /\
    forall x, In x (c_q s') -> ~ klt (ikey x) (ikey h).
Proof.
  intros s t k s' [S N] HS. apply step_facts in HS. destruct HS as [_ HS]. simpl in HS.
  destruct HS as [h [r [nb [Hq [Hq' [Hk [Ht [_ [Hpc [Hle _]]]]]]]]]].
  exists h, nb. rewrite Hq'. repeat split; try assumption.
  intros x Hx. rewrite Hq in S. apply (sorted_head_le _ ikey h r x S Hx).
Qed.

(* ---- never_early ------------------------------------------------------------------------------------- *)
Definition ne_rel (s : cst) (m : tmap) (nbo : option Q) : Prop :=
  m = c_map s /\ forall nb, nb_of (c_pc s) = Some nb -> nbo = Some nb.

Lemma never_early_gen : forall evs s s' m nbo,
  ne_rel s m nbo -> run s evs = Some s' -> mon_never_early m nbo evs = true.
Proof.
  induction evs as [| e r IH]; intros s s' m nbo [Hm Hnb] HR; simpl in HR.
  - reflexivity.
  - destruct (step s e) as [s1 |] eqn:E; [| discriminate].
    pose proof (step_facts _ _ _ E) as F. unfold facts in F. destruct F as [_ F].
    destruct e as [t k | sr | t k | | m' | t | to | c | t k | k rr | base dd]; simpl.
    + destruct F as [_ [_ [_ [Hmap [Hn _]]]]].
      apply (IH s1 s'); [| exact HR]. split; [congruence |].
      intros nb H. destruct Hn as [Hn | Hn]; [apply Hnb; congruence | congruence].
    + assert (G : c_map s1 = c_map s /\ (nb_of (c_pc s1) = nb_of (c_pc s) \/ nb_of (c_pc s1) = None)).
      { destruct sr; [destruct F as [_ [_ [_ [Hmap [Hn _]]]]]; tauto
                     | destruct F as [_ [_ [_ [_ [Hmap [Hn _]]]]]]; split; [assumption | left; assumption]
                     | destruct F as [_ [_ [_ [Hmap [Hn _]]]]]; tauto
                     | destruct F as [_ [_ [_ [Hmap [Hn _]]]]]; tauto]. }
      destruct G as [Hmap Hn].
      apply (IH s1 s'); [| exact HR]. split; [congruence |].
      intros nb H. destruct Hn as [Hn | Hn]; [apply Hnb; congruence | congruence].
    + destruct F as [h [q' [_ [_ [_ [_ [_ [_ [Hmap [Hn _]]]]]]]]]].
      apply (IH s1 s'); [| exact HR]. split; [congruence |].
      intros nb H. apply Hnb; congruence.
    + destruct F as [_ [_ [_ [Hmap [_ [Hn _]]]]]].
      apply (IH s1 s'); [| exact HR]. split; [congruence |].
      intros nb H. apply Hnb; congruence.
    + destruct F as [_ [_ [_ [Hmap [Hn _]]]]].
      apply (IH s1 s'); [| exact HR]. split; [congruence |].
      intros nb H. apply Hnb; congruence.
    + destruct F as [_ [_ [_ [_ [Hmap [_ [_ Hn]]]]]]].
      apply (IH s1 s'); [| exact HR]. split; [congruence |].
      intros nb H. destruct Hn as [Hn | Hn]; [| congruence]. rewrite Hn in H. inversion H; subst.
      reflexivity.
    + destruct F as [_ [_ [_ [Hmap [Hn _]]]]].
      apply (IH s1 s'); [| exact HR]. split; [congruence |].
      intros nb H. destruct Hn as [Hn | Hn]; [apply Hnb; congruence | congruence].
    + destruct F as [_ [_ [_ [Hmap [Hn _]]]]].
      apply (IH s1 s'); [| exact HR]. split; [congruence |].
      intros nb H. destruct Hn as [Hn | Hn]; [apply Hnb; congruence | congruence].
    + destruct F as [h [q' [nb [_ [_ [_ [Ht [_ [Hpc [Hle [Hpc' Hmap]]]]]]]]]]].
      assert (Hnbo : nbo = Some nb) by (apply Hnb; rewrite Hpc; reflexivity).
      rewrite Hnbo. apply andb_true_iff. split.
      * apply Qle_bool_iff. rewrite Ht. exact Hle.
      * apply (IH s1 s'); [| exact HR]. split; [congruence |].
        intros nb' H. rewrite Hpc' in H. simpl in H. congruence.
    + destruct F as [nb [t [Hpc [_ [_ [Hmap [_ Hpc']]]]]]].
      apply (IH s1 s'); [| exact HR]. split; [congruence |].
      intros nb' H. apply Hnb. rewrite Hpc. simpl.
      rewrite Hpc' in H. destruct rr; simpl in H; exact H.
    + destruct F as [_ [_ [_ [Hmap [Hn _]]]]].
      apply (IH s1 s'); [| exact HR]. split; [congruence |].
      intros nb H. destruct Hn as [Hn | Hn]; [apply Hnb; congruence | congruence].
Qed.

Lemma never_early_accepts : forall k m evs,
  accepts k m evs = true -> mon_never_early m None evs = true.
Proof.
  intros k m evs H. unfold accepts in H.
  destruct (run (init k m) evs) as [s' |] eqn:E; [| discriminate].
  apply (never_early_gen evs (init k m) s'); [| exact E].
  split; [reflexivity | intros nb Hn; simpl in Hn; discriminate].
Qed.

(* ---- exactly once / order: the monitor's pending list is the queue ---------------------------------- *)
Definition conv (x : task * Q * nat) : item := (snd (fst x), snd x, fst (fst x)).

Lemma conv_remove : forall k l, map conv (mp_remove k l) = remove_task k (map conv l).
Proof.
  intros k l. induction l as [| x r IH]; [reflexivity |].
  destruct x as [[k' t'] n'].
  change (map conv (mp_remove k ((k', t', n') :: r)))
    with (map conv (if Z.eqb k k' then mp_remove k r else (k', t', n') :: mp_remove k r)).
  change (remove_task k (map conv ((k', t', n') :: r)))
    with (if negb (Z.eqb k k') then (t', n', k') :: remove_task k (map conv r)
          else remove_task k (map conv r)).
  destruct (Z.eqb k k'); simpl; [exact IH | rewrite IH; reflexivity].
Qed.

Lemma remove_task_perm : forall k l l', Permutation l l' ->
  Permutation (remove_task k l) (remove_task k l').
Proof.
  intros k l l' P. unfold remove_task. induction P; simpl.
  - constructor.
  - destruct (negb (Z.eqb k (itask x))); [apply perm_skip |]; assumption.
  - destruct (negb (Z.eqb k (itask x))); destruct (negb (Z.eqb k (itask y)));
      try apply perm_swap; try apply Permutation_refl.
  - eapply perm_trans; eassumption.
Qed.

Lemma remove_task_absent : forall k l, ~ In k (map itask l) -> remove_task k l = l.
Proof.
  intros k l. induction l as [| x r IH]; intro H; simpl; [reflexivity |].
  destruct (Z.eqb k (itask x)) eqn:E; simpl.
  - exfalso. apply H. left. apply Z.eqb_eq in E. symmetry. exact E.
  - f_equal. apply IH. intro H'. apply H. right. exact H'.
Qed.

Lemma mp_find_in : forall k t n l,
  NoDup (map itask (map conv l)) -> In (k, t, n) l -> mp_find k l = Some (t, n).
Proof.
  intros k t n l. induction l as [| x r IH]; intros N Hin; simpl in *.
  - contradiction.
  - inversion N as [| a b Na Nr]; subst.
    destruct x as [[k' t'] n']. simpl in *.
    destruct Hin as [Hin | Hin].
    + inversion Hin; subst. rewrite Z.eqb_refl. reflexivity.
    + destruct (Z.eqb k k') eqn:E.
      * exfalso. apply Z.eqb_eq in E. subst k'. apply Na.
        apply in_map_iff. exists (conv (k, t, n)). split; [reflexivity |].
        apply in_map. exact Hin.
      * apply IH; assumption.
Qed.

Definition once_rel (s : cst) (l : mpend) (n : nat) (cur : option task) : Prop :=
  Permutation (map conv l) (c_q s) /\ n = c_n s /\ cur = cur_of (c_pc s).

Lemma rel_pop : forall l h r,
  sorted ikey (h :: r) -> NoDup (map itask (h :: r)) -> Permutation (map conv l) (h :: r) ->
  mp_find (itask h) l = Some (itime h, iseq h) /\
  mp_minimal (itime h) (iseq h) l = true /\
  Permutation (map conv (mp_remove (itask h) l)) r.
Proof.
  intros l h r S N P.
  assert (N' : NoDup (map itask (map conv l))).
  { apply (Permutation_NoDup (l := map itask (h :: r))); [| exact N].
    apply Permutation_map. apply Permutation_sym. exact P. }
  split; [| split].
  - assert (Hin : In h (map conv l)).
    { apply (Permutation_in _ (Permutation_sym P)). left. reflexivity. }
    apply in_map_iff in Hin. destruct Hin as [[[k t] n] [Hc Hin]].
    unfold conv in Hc. simpl in Hc. subst h. unfold itask, itime, iseq. simpl.
    apply mp_find_in; assumption.
  - unfold mp_minimal. apply forallb_forall. intros x Hx.
    assert (Hin : In (conv x) (h :: r)).
    { apply (Permutation_in _ P). apply in_map. exact Hx. }
    apply negb_true_iff. apply key_ltb_false.
    destruct Hin as [Hin | Hin].
    + subst h. destruct x as [[k t] n]. unfold conv, itime, iseq. simpl. apply klt_irrefl.
    + pose proof (sorted_head_le _ ikey h r (conv x) S Hin) as Hk. unfold kle in Hk.
      destruct x as [[k t] n]. destruct h as [[th nh] kh]. exact Hk.
  - rewrite conv_remove.
    apply perm_trans with (remove_task (itask h) (h :: r)).
    + apply remove_task_perm. exact P.
    + simpl. rewrite Z.eqb_refl. simpl. rewrite remove_task_absent; [apply Permutation_refl |].
      simpl in N. inversion N; assumption.
Qed.

Lemma once_gen : forall evs s s' l n cur,
  qinv s -> once_rel s l n cur -> run s evs = Some s' -> mon_once l n cur evs = true.
Proof.
  induction evs as [| e r IH]; intros s s' l n cur QI [HP [Hn Hc]] HR; simpl in HR.
  - reflexivity.
  - destruct (step s e) as [s1 |] eqn:E; [| discriminate].
    pose proof (qinv_step _ _ _ QI E) as QI1.
    pose proof (step_facts _ _ _ E) as F. unfold facts in F. destruct F as [_ F].
    destruct QI as [S N].
    destruct e as [t k | sr | t k | | m' | t | to | c | t k | k rr | base dd]; simpl.
    + destruct F as [Hq [Hn' [Hc' _]]].
      apply (IH s1 s'); [exact QI1 | | exact HR]. split; [| split; congruence].
      simpl. rewrite Hq. apply Permutation_sym.
      eapply perm_trans; [apply q_add_perm |].
      subst n. apply perm_skip. rewrite conv_remove. apply remove_task_perm.
      apply Permutation_sym. exact HP.
    + destruct sr.
      * destruct F as [Hq [Hn' [Hc' _]]].
        apply (IH s1 s'); [exact QI1 | | exact HR]. split; [| split]; congruence.
      * destruct F as [Hq [Hq' [Hn' [Hc' _]]]].
        rewrite Hq in HP. destruct l as [| x l'].
        -- apply (IH s1 s'); [exact QI1 | | exact HR]. split; [| split]; try congruence.
        -- simpl in HP. apply Permutation_sym in HP. apply Permutation_nil in HP. discriminate.
      * destruct F as [Hq [Hn' [Hc' _]]].
        apply (IH s1 s'); [exact QI1 | | exact HR]. split; [| split]; congruence.
      * destruct F as [Hq [Hn' [Hc' _]]].
        apply (IH s1 s'); [exact QI1 | | exact HR]. split; [| split]; congruence.
    + destruct F as [h [q' [Hq [Hq' [Hk [Ht [Hn' [Hc' _]]]]]]]].
      rewrite Hq in *.
      destruct (rel_pop l h q' S N HP) as [Hf [_ Hrem]].
      rewrite <- Hk. rewrite Hf. apply andb_true_iff. split.
      * apply Qeq_bool_iff. exact Ht.
      * apply (IH s1 s'); [exact QI1 | | exact HR]. split; [| split]; try congruence.
    + destruct F as [Hq [Hn' [Hc' _]]].
      apply (IH s1 s'); [exact QI1 | | exact HR]. split; [| split]; try congruence.
      rewrite Hq. constructor.
    + destruct F as [Hq [Hn' [Hc' _]]].
      apply (IH s1 s'); [exact QI1 | | exact HR]. split; [| split]; congruence.
    + destruct F as [Hq [Hn' [Hc1 [Hc0 _]]]].
      apply (IH s1 s'); [exact QI1 | | exact HR]. split; [| split]; congruence.
    + destruct F as [Hq [Hn' [Hc' _]]].
      apply (IH s1 s'); [exact QI1 | | exact HR]. split; [| split]; congruence.
    + destruct F as [Hq [Hn' [Hc' _]]].
      apply (IH s1 s'); [exact QI1 | | exact HR]. split; [| split]; congruence.
    + destruct F as [h [q' [nb [Hq [Hq' [Hk [Ht [Hn' [Hpc [_ [Hpc' _]]]]]]]]]]].
      rewrite Hq in *.
      destruct (rel_pop l h q' S N HP) as [Hf [Hmin Hrem]].
      assert (Hcur : cur = None) by (rewrite Hc, Hpc; reflexivity).
      rewrite Hcur. rewrite <- Hk. rewrite Hf.
      apply andb_true_iff. split; [apply andb_true_iff; split |].
      * apply Qeq_bool_iff. exact Ht.
      * exact Hmin.
      * apply (IH s1 s'); [exact QI1 | | exact HR]. split; [| split]; try congruence.
        rewrite Hpc'. simpl. congruence.
    + destruct F as [nb [t [Hpc [Hq [Hn' [_ [_ Hpc']]]]]]].
      assert (Hcur : cur = Some k) by (rewrite Hc, Hpc; reflexivity).
      rewrite Hcur. rewrite Z.eqb_refl. simpl.
      apply (IH s1 s'); [exact QI1 | | exact HR]. split; [| split]; try congruence.
      rewrite Hpc'. destruct rr; reflexivity.
    + destruct F as [Hq [Hn' [Hc' _]]].
      apply (IH s1 s'); [exact QI1 | | exact HR]. split; [| split]; congruence.
Qed.

Lemma once_accepts : forall k m evs,
  accepts k m evs = true -> mon_once [] 0 None evs = true.
Proof.
  intros k m evs H. unfold accepts in H.
  destruct (run (init k m) evs) as [s' |] eqn:E; [| discriminate].
  apply (once_gen evs (init k m) s'); [apply qinv_init | | exact E].
  split; [constructor | split; reflexivity].
Qed.

(* ---- resched relative to the scheduled time ----------------------------------------------------------- *)
Lemma resched_gen : forall evs s s' pt,
  (forall t, popt_of (c_pc s) = Some t -> pt == t) ->
  run s evs = Some s' -> mon_resched pt evs = true.
Proof.
  induction evs as [| e r IH]; intros s s' pt Hpt HR; simpl in HR.
  - reflexivity.
  - destruct (step s e) as [s1 |] eqn:E; [| discriminate].
    pose proof (step_facts _ _ _ E) as F. unfold facts in F. destruct F as [_ F].
    destruct e as [t k | sr | t k | | m' | t | to | c | t k | k rr | base dd]; simpl.
    + destruct F as [_ [_ [_ [_ [_ [Hp _]]]]]].
      apply (IH s1 s'); [| exact HR]. intros t0 H0. apply Hpt. congruence.
    + assert (Hp : popt_of (c_pc s1) = popt_of (c_pc s)).
      { destruct sr; [destruct F as [_ [_ [_ [_ [_ Hp]]]]]; exact Hp
                     | destruct F as [_ [_ [_ [_ [_ [_ Hp]]]]]]; exact Hp
                     | destruct F as [_ [_ [_ [_ [_ Hp]]]]]; exact Hp
                     | destruct F as [_ [_ [_ [_ [_ Hp]]]]]; exact Hp]. }
      apply (IH s1 s'); [| exact HR]. intros t0 H0. apply Hpt. congruence.
    + destruct F as [h [q' [_ [_ [_ [_ [_ [_ [_ [_ Hp]]]]]]]]]].
      apply (IH s1 s'); [| exact HR]. intros t0 H0. apply Hpt. congruence.
    + destruct F as [_ [_ [_ [_ [_ [_ [Hp _]]]]]]].
      apply (IH s1 s'); [| exact HR]. intros t0 H0. apply Hpt. congruence.
    + destruct F as [_ [_ [_ [_ [_ Hp]]]]].
      apply (IH s1 s'); [| exact HR]. intros t0 H0. apply Hpt. congruence.
    + destruct F as [_ [_ [Hc1 _]]].
      apply (IH s1 s'); [| exact HR]. intros t0 H0.
      destruct (c_pc s1); simpl in *; discriminate.
    + destruct F as [_ [_ [_ [_ [_ Hp]]]]].
      apply (IH s1 s'); [| exact HR]. intros t0 H0. apply Hpt. congruence.
    + destruct F as [_ [_ [_ [_ [_ Hp]]]]].
      apply (IH s1 s'); [| exact HR]. intros t0 H0. apply Hpt. congruence.
    + destruct F as [h [q' [nb [_ [_ [_ [Ht [_ [_ [_ [Hpc' _]]]]]]]]]]].
      apply (IH s1 s'); [| exact HR]. intros t0 H0. rewrite Hpc' in H0. simpl in H0.
      inversion H0; subst. exact Ht.
    + destruct F as [nb [t [Hpc [_ [_ [_ [Hpe Hpc']]]]]]].
      assert (Hpt' : pt == t) by (apply Hpt; rewrite Hpc; reflexivity).
      destruct rr as [d | |].
      * destruct r as [| e2 r2]; [reflexivity |].
        simpl in HR. destruct (step s1 e2) as [s2 |] eqn:E2; [| discriminate].
        assert (He2 : exists t' , e2 = EAdd t' k /\ t' == t + d).
        { destruct s1 as [kd q n p rn nt la m pe]. simpl in Hpe, Hpc'. subst pe p.
          destruct e2; destruct q; simpl in E2; try discriminate E2;
            unfold_step E2; break_step E2;
            try match goal with H : _ && _ = true |- _ => apply andb_true_iff in H; destruct H as [Ha Hb] end;
            try (apply Z.eqb_eq in Hb; subst; eexists; split; [reflexivity | apply Qeq_bool_true; assumption]). }
        destruct He2 as [t' [He2 Ht']]. subst e2.
        apply andb_true_iff. split; [apply andb_true_iff; split |].
        -- apply Qeq_bool_iff. rewrite Ht', Hpt'. reflexivity.
        -- apply Z.eqb_refl.
        -- apply (IH s1 s'); [| simpl; rewrite E2; exact HR].
           intros t0 H0. rewrite Hpc' in H0. simpl in H0. discriminate.
      * apply (IH s1 s'); [| exact HR]. intros t0 H0. rewrite Hpc' in H0. discriminate.
      * apply (IH s1 s'); [| exact HR]. intros t0 H0. rewrite Hpc' in H0. discriminate.
    + destruct F as [_ [_ [_ [_ [_ [Hp _]]]]]].
      apply (IH s1 s'); [| exact HR]. intros t0 H0. apply Hpt. congruence.
Qed.

Lemma resched_accepts : forall k m evs,
  accepts k m evs = true -> mon_resched 0 evs = true.
Proof.
  intros k m evs H. unfold accepts in H.
  destruct (run (init k m) evs) as [s' |] eqn:E; [| discriminate].
  apply (resched_gen evs (init k m) s'); [| exact E].
  intros t H0. simpl in H0. discriminate.
Qed.

(* state form: the step after a numeric result can only be the add at scheduled + delta *)
Lemma resched_next_step : forall s k d s1 e s2,
  step s (EAwakeEnd k (RDelta d)) = Some s1 -> step s1 e = Some s2 ->
  exists nb t t', c_pc s = PAwake nb t k /\ e = EAdd t' k /\ t' == t + d /\
    c_q s2 = q_add t' k (c_q s) (c_n s).
Proof.
  intros s k d s1 e s2 H1 H2.
  pose proof (step_facts _ _ _ H1) as F. destruct F as [_ F]. simpl in F.
  destruct F as [nb [t [Hpc [Hq [Hn [_ [Hpe Hpc']]]]]]].
  exists nb, t.
  assert (He2 : exists t', e = EAdd t' k /\ t' == t + d).
  { destruct s1 as [kd q n p rn nt la m pe]. simpl in Hpe, Hpc'. subst pe p.
    destruct e; destruct q; simpl in H2; try discriminate H2;
      unfold_step H2; break_step H2;
      try match goal with H : _ && _ = true |- _ => apply andb_true_iff in H; destruct H as [Ha Hb] end;
      try (apply Z.eqb_eq in Hb; subst; eexists; split; [reflexivity | apply Qeq_bool_true; assumption]). }
  destruct He2 as [t' [He Ht']]. exists t'. subst e. repeat split; try assumption.
  pose proof (step_facts _ _ _ H2) as F2. destruct F2 as [_ F2]. simpl in F2.
  destruct F2 as [Hq2 _]. rewrite Hq2. congruence.
Qed.

(* ---- stop is final ---------------------------------------------------------------------------------------- *)
Definition stopped_inv (s : cst) : Prop :=
  c_run s = false -> lock_free (c_pc s) = true /\ c_q s = [] \/ lock_free (c_pc s) = true.

Lemma run_flag_inv : forall s e s',
  (c_run s = false -> lock_free (c_pc s) = true) -> step s e = Some s' ->
  (c_run s' = false -> lock_free (c_pc s') = true).
Proof.
  intros s e s' HI HS.
  destruct s as [kd q n p rn nt la m pe]. simpl in *.
  destruct pe, e, p, q; simpl in HS; try discriminate HS;
    step_cases HS; simpl in *; try reflexivity; try discriminate; auto.
  all: try match goal with E : (if ?c then _ else _) = _ |- _ => destruct c; try discriminate E end.
  all: try (intro H0; specialize (HI H0); discriminate).
Qed.

Lemma stopped_no_pop : forall k m evs s t tk,
  run (init k m) evs = Some s -> c_run s = false -> step s (EPop t tk) = None.
Proof.
  intros k m evs s t tk HR Hrun.
  assert (HI : c_run s = false -> lock_free (c_pc s) = true).
  { apply (run_invariant0 (fun s => c_run s = false -> lock_free (c_pc s) = true) run_flag_inv evs (init k m) s);
      [simpl; intro; discriminate | exact HR]. }
  specialize (HI Hrun).
  destruct (step s (EPop t tk)) as [s' |] eqn:E; [| reflexivity].
  apply step_facts in E. destruct E as [_ E]. simpl in E.
  destruct E as [h [r [nb [_ [_ [_ [_ [_ [Hpc _]]]]]]]]]. rewrite Hpc in HI. discriminate.
Qed.

Lemma run_flag_stays : forall s e s', c_run s = false -> step s e = Some s' -> c_run s' = false.
Proof.
  intros s e s' HI HS.
  destruct s as [kd q n p rn nt la m pe]. simpl in *. subst rn.
  destruct pe, e, p, q; simpl in HS; try discriminate HS;
    step_cases HS; simpl in *; reflexivity.
Qed.

(* ---- clear / stop cancel everything -------------------------------------------------------------------------- *)
Lemma clear_cancels : forall s s', step s (ENotify SClear) = Some s' -> c_q s' = [].
Proof.
  intros s s' H. apply step_facts in H. destruct H as [_ H]. simpl in H. tauto.
Qed.

Lemma stop_cancels : forall s s', step s EQClear = Some s' -> c_q s' = [] /\ c_run s' = false.
Proof.
  intros s s' H. apply step_facts in H. destruct H as [_ H]. simpl in H. tauto.
Qed.

(* ---- an exception is swallowed: same state as a non-numeric return ------------------------------------------ *)
Lemma raise_is_other : forall s k, step s (EAwakeEnd k RRaise) = step s (EAwakeEnd k ROther).
Proof. intros s k. unfold step. destruct (c_pend s); reflexivity. Qed.

Lemma raise_is_other_run : forall s k evs,
  run s (EAwakeEnd k RRaise :: evs) = run s (EAwakeEnd k ROther :: evs).
Proof. intros. simpl. rewrite raise_is_other. reflexivity. Qed.

(* the clock goes on: after the raising task the thread is at the test of loop 3 with the
   same time reading, the queue untouched *)
Lemma raise_continues : forall s k s', step s (EAwakeEnd k RRaise) = Some s' ->
  exists nb t, c_pc s = PAwake nb t k /\ c_pc s' = PLoop3 nb /\ c_q s' = c_q s /\ c_run s' = c_run s.
Proof.
  intros s k s' H. pose proof (step_facts _ _ _ H) as F. destruct F as [_ F]. simpl in F.
  destruct F as [nb [t [Hpc [Hq [_ [_ [_ Hpc']]]]]]]. exists nb, t. repeat split; try assumption.
  destruct s as [kd q n p rn nt la m pe]. simpl in *.
  destruct pe, p, q; simpl in H; try discriminate H; step_cases H; reflexivity.
Qed.

(* ---- sched(d) from a non-clock thread: relative to the physical present -------------------------------------- *)
Lemma sched_call_next_step : forall s base d s1 e s2,
  step s (ESchedCall base d) = Some s1 -> step s1 e = Some s2 ->
  exists t k, e = EAdd t k /\ t == secs2beats (c_map s) base + d /\
    c_q s2 = q_add t k (c_q s) (c_n s) /\ main_time_frozen s = false.
Proof.
  intros s base d s1 e s2 H1 H2.
  pose proof (step_facts _ _ _ H1) as F. destruct F as [_ F]. simpl in F.
  destruct F as [Hq [Hn [_ [_ [_ [_ [Hlf [_ Hpe]]]]]]]].
  assert (He : exists t k, e = EAdd t k /\ t == secs2beats (c_map s) base + d).
  { destruct s1 as [kd q n p rn nt la m pe]. simpl in Hpe. subst pe.
    destruct e; simpl in H2; try discriminate H2.
    unfold step in H2. simpl in H2.
    destruct (lock_free p && Qeq_bool t (secs2beats (c_map s) base + d)) eqn:E; [| discriminate].
    apply andb_true_iff in E. destruct E as [_ E]. apply Qeq_bool_true in E.
    eexists; eexists; split; [reflexivity | exact E]. }
  destruct He as [t [k [He Ht]]]. subst e. exists t, k. repeat split; try assumption.
  - pose proof (step_facts _ _ _ H2) as F2. destruct F2 as [_ F2]. simpl in F2.
    destruct F2 as [Hq2 _]. rewrite Hq2. congruence.
  - unfold main_time_frozen. destruct (c_pc s); simpl in *; try reflexivity; discriminate.
Qed.

(* the frozen-time flag is reset on every exit path of an awake (return, numeric return, exception) *)
Lemma frozen_reset_on_every_exit : forall s k r s',
  step s (EAwakeEnd k r) = Some s' -> main_time_frozen s = true /\ main_time_frozen s' = false.
Proof.
  intros s k r s' H. pose proof (step_facts _ _ _ H) as F. destruct F as [_ F]. simpl in F.
  destruct F as [nb [t [Hpc [_ [_ [_ [_ Hpc']]]]]]]. unfold main_time_frozen. rewrite Hpc, Hpc'.
  split; [reflexivity | destruct r; reflexivity].
Qed.

(* ... so it is set only while the clock thread is inside an awake call: never while the thread
   waits, has exited, or is at a loop test *)
Lemma frozen_only_in_awake : forall s, main_time_frozen s = true -> exists nb t k, c_pc s = PAwake nb t k.
Proof.
  intros s H. unfold main_time_frozen in H. destruct (c_pc s); simpl in H; try discriminate.
  eexists; eexists; eexists; reflexivity.
Qed.

Lemma sched_base_gen : forall evs s s' m,
  m = c_map s -> run s evs = Some s' -> mon_sched_base m evs = true.
Proof.
  induction evs as [| e r IH]; intros s s' m Hm HR; simpl in HR.
  - reflexivity.
  - destruct (step s e) as [s1 |] eqn:E; [| discriminate].
    pose proof (step_facts _ _ _ E) as F. unfold facts in F. destruct F as [_ F].
    destruct e as [t k | sr | t k | | m' | t | to | c | t k | k rr | base dd]; simpl.
    + destruct F as [_ [_ [_ [Hmap _]]]]. apply (IH s1 s'); [congruence | exact HR].
    + assert (Hmap : c_map s1 = c_map s).
      { destruct sr; [destruct F as [_ [_ [_ [Hmap _]]]]; exact Hmap
                     | destruct F as [_ [_ [_ [_ [Hmap _]]]]]; exact Hmap
                     | destruct F as [_ [_ [_ [Hmap _]]]]; exact Hmap
                     | destruct F as [_ [_ [_ [Hmap _]]]]; exact Hmap]. }
      apply (IH s1 s'); [congruence | exact HR].
    + destruct F as [h [q' [_ [_ [_ [_ [_ [_ [Hmap _]]]]]]]]]. apply (IH s1 s'); [congruence | exact HR].
    + destruct F as [_ [_ [_ [Hmap _]]]]. apply (IH s1 s'); [congruence | exact HR].
    + destruct F as [_ [_ [_ [Hmap _]]]]. apply (IH s1 s'); [congruence | exact HR].
    + destruct F as [_ [_ [_ [_ [Hmap _]]]]]. apply (IH s1 s'); [congruence | exact HR].
    + destruct F as [_ [_ [_ [Hmap _]]]]. apply (IH s1 s'); [congruence | exact HR].
    + destruct F as [_ [_ [_ [Hmap _]]]]. apply (IH s1 s'); [congruence | exact HR].
    + destruct F as [h [q' [nb [_ [_ [_ [_ [_ [_ [_ [_ Hmap]]]]]]]]]]]. apply (IH s1 s'); [congruence | exact HR].
    + destruct F as [nb [t [_ [_ [_ [Hmap _]]]]]]. apply (IH s1 s'); [congruence | exact HR].
    + destruct F as [_ [_ [_ [Hmap _]]]].
      destruct r as [| e2 r2]; [reflexivity |].
      simpl in HR. destruct (step s1 e2) as [s2 |] eqn:E2; [| discriminate].
      destruct (sched_call_next_step s base dd s1 e2 s2 E E2) as [t [k [He [Ht _]]]]. subst e2.
      apply andb_true_iff. split.
      * apply Qeq_bool_iff. rewrite Hm. exact Ht.
      * apply (IH s1 s'); [congruence | simpl; rewrite E2; exact HR].
Qed.

Lemma sched_base_accepts : forall k m evs,
  accepts k m evs = true -> mon_sched_base m evs = true.
Proof.
  intros k m evs H. unfold accepts in H.
  destruct (run (init k m) evs) as [s' |] eqn:E; [| discriminate].
  apply (sched_base_gen evs (init k m) s'); [reflexivity | exact E].
Qed.
