(* C17 -- GENERATED FROM PROOF SCRIPTS (see notes/C17.md): for every op of the model, the messages it hands to
   server.addr are Good (conform + ids in the ledger) and the object invariant is kept. Part 1. *)
From Coq Require Import ZArith QArith List String Bool Lia.
Import ListNotations.
Require Import SC3.model.ProtoGrammar SC3.model.Proto SC3.gen.Gen_proto.
Require Import SC3.proofs.C17_gram SC3.proofs.C17_args SC3.proofs.C17_bind SC3.proofs.C17_life SC3.proofs.C17_conform SC3.proofs.C17_optac.
Open Scope string_scope. Open Scope Z_scope. Open Scope list_scope.

Lemma og_OSynth : forall n L s a0 a1 a2 a3 a4 a5 s1 sends e,
  InvO L s -> wf_op n s (OSynth a0 a1 a2 a3 a4 a5) = true -> obj_step repaired s (OSynth a0 a1 a2 a3 a4 a5) = (s1, sends, e) ->
  InvO (op_ids s (OSynth a0 a1 a2 a3 a4 a5) ++ L) s1 /\ Forall (Good (op_ids s (OSynth a0 a1 a2 a3 a4 a5) ++ L)) (flat_map send_msgs sends).
Proof.
  intros n L s a0 a1 a2 a3 a4 a5 s1 sends e I Hw H.
  cbn [wf_op] in Hw; try discriminate Hw; split_ands.
  unfold obj_step, obj_step_core, ok, fail in H.
  brk_hyp H; inversion H; subst; clear H.
  all: cbn [flat_map send_msgs app].
  all: cbn [op_ids].
  all: pose proof (io_dg _ _ I) as [DG DGS].
  all: change (v_dict_brackets repaired) with false in *.
  all: (split; [ try solve [inv_tac I] | try solve [constructor] ]).
  all: try solve [ use_target L I; use_nodes L I; unfold pargroup_creation_cmd, group_creation_cmd, py_int in *;
                   brk_eqs; bools; goods ].
  all: try solve [ bools; brk_eqs; toks; match goal with G : get_buf _ _ = Some _ |- _ => use_buf L I G end;
                   repeat match goal with G : get_buf _ _ = Some _ |- _ => use_buf L I G end;
                   ions; brk_eqs; goods ].
  all: try solve [ bools; brk_eqs; toks; match goal with G : get_bus _ _ = Some _ |- _ => use_bus L I G end; ions; brk_eqs; goods ].
  all: use_target L I; use_nodes L I.
  all: try solve [apply invO_add_node; [inv_tac I | known_tac]].
  all: repeat (constructor; [first [ eapply good_s_new; eauto using io_objs; try solve [known_tac]; try (right; right; right; right; reflexivity) | good_fixed ]|]); try constructor.

Qed.

Lemma og_OGroup : forall n L s a0 a1 a2 a3 s1 sends e,
  InvO L s -> wf_op n s (OGroup a0 a1 a2 a3) = true -> obj_step repaired s (OGroup a0 a1 a2 a3) = (s1, sends, e) ->
  InvO (op_ids s (OGroup a0 a1 a2 a3) ++ L) s1 /\ Forall (Good (op_ids s (OGroup a0 a1 a2 a3) ++ L)) (flat_map send_msgs sends).
Proof.
  intros n L s a0 a1 a2 a3 s1 sends e I Hw H.
  cbn [wf_op] in Hw; try discriminate Hw; split_ands.
  unfold obj_step, obj_step_core, ok, fail in H.
  brk_hyp H; inversion H; subst; clear H.
  all: cbn [flat_map send_msgs app].
  all: cbn [op_ids].
  all: pose proof (io_dg _ _ I) as [DG DGS].
  all: change (v_dict_brackets repaired) with false in *.
  all: (split; [ try solve [inv_tac I] | try solve [constructor] ]).
  all: try solve [ use_target L I; use_nodes L I; unfold pargroup_creation_cmd, group_creation_cmd, py_int in *;
                   brk_eqs; bools; goods ].
  all: try solve [ bools; brk_eqs; toks; match goal with G : get_buf _ _ = Some _ |- _ => use_buf L I G end;
                   repeat match goal with G : get_buf _ _ = Some _ |- _ => use_buf L I G end;
                   ions; brk_eqs; goods ].
  all: try solve [ bools; brk_eqs; toks; match goal with G : get_bus _ _ = Some _ |- _ => use_bus L I G end; ions; brk_eqs; goods ].

Qed.

Lemma og_OBasicNew : forall n L s a0 s1 sends e,
  InvO L s -> wf_op n s (OBasicNew a0) = true -> obj_step repaired s (OBasicNew a0) = (s1, sends, e) ->
  InvO (op_ids s (OBasicNew a0) ++ L) s1 /\ Forall (Good (op_ids s (OBasicNew a0) ++ L)) (flat_map send_msgs sends).
Proof.
  intros n L s a0 s1 sends e I Hw H.
  cbn [wf_op] in Hw; try discriminate Hw; split_ands.
  unfold obj_step, obj_step_core, ok, fail in H.
  brk_hyp H; inversion H; subst; clear H.
  all: cbn [flat_map send_msgs app].
  all: cbn [op_ids].
  all: pose proof (io_dg _ _ I) as [DG DGS].
  all: change (v_dict_brackets repaired) with false in *.
  all: (split; [ try solve [inv_tac I] | try solve [constructor] ]).
  all: try solve [ use_target L I; use_nodes L I; unfold pargroup_creation_cmd, group_creation_cmd, py_int in *;
                   brk_eqs; bools; goods ].
  all: try solve [ bools; brk_eqs; toks; match goal with G : get_buf _ _ = Some _ |- _ => use_buf L I G end;
                   repeat match goal with G : get_buf _ _ = Some _ |- _ => use_buf L I G end;
                   ions; brk_eqs; goods ].
  all: try solve [ bools; brk_eqs; toks; match goal with G : get_bus _ _ = Some _ |- _ => use_bus L I G end; ions; brk_eqs; goods ].

Qed.

Lemma og_ONodeSet : forall n L s a0 a1 s1 sends e,
  InvO L s -> wf_op n s (ONodeSet a0 a1) = true -> obj_step repaired s (ONodeSet a0 a1) = (s1, sends, e) ->
  InvO (op_ids s (ONodeSet a0 a1) ++ L) s1 /\ Forall (Good (op_ids s (ONodeSet a0 a1) ++ L)) (flat_map send_msgs sends).
Proof.
  intros n L s a0 a1 s1 sends e I Hw H.
  cbn [wf_op] in Hw; try discriminate Hw; split_ands.
  unfold obj_step, obj_step_core, ok, fail in H.
  brk_hyp H; inversion H; subst; clear H.
  all: cbn [flat_map send_msgs app].
  all: cbn [op_ids].
  all: pose proof (io_dg _ _ I) as [DG DGS].
  all: change (v_dict_brackets repaired) with false in *.
  all: (split; [ try solve [inv_tac I] | try solve [constructor] ]).
  all: try solve [ use_target L I; use_nodes L I; unfold pargroup_creation_cmd, group_creation_cmd, py_int in *;
                   brk_eqs; bools; goods ].
  all: try solve [ bools; brk_eqs; toks; match goal with G : get_buf _ _ = Some _ |- _ => use_buf L I G end;
                   repeat match goal with G : get_buf _ _ = Some _ |- _ => use_buf L I G end;
                   ions; brk_eqs; goods ].
  all: try solve [ bools; brk_eqs; toks; match goal with G : get_bus _ _ = Some _ |- _ => use_bus L I G end; ions; brk_eqs; goods ].
  all: use_nodes L I.
  all: constructor; [|constructor].
  all: destruct (set_groups s1 n (io_objs _ _ I) _ a1 (le_n _) P) as [ws [W [G N]]].
  all: unfold oal.
  all: eapply (good_groups _ "/n_set" [PInt z] (flat_map (embed false s1) a1) _ [TCtl; TVal] true _ ws []);
       try reflexivity; try exact W; try exact G; try exact N; try (let Y := fresh "Y" in intros Y; reflexivity);
       try solve [ids_goal]; try solve [intros k i []].
  all: right; eapply wire_args_nonempty; [exact W | apply nonempty_ne; exact Hw].

Qed.

Lemma og_ONodeSetn : forall n L s a0 a1 s1 sends e,
  InvO L s -> wf_op n s (ONodeSetn a0 a1) = true -> obj_step repaired s (ONodeSetn a0 a1) = (s1, sends, e) ->
  InvO (op_ids s (ONodeSetn a0 a1) ++ L) s1 /\ Forall (Good (op_ids s (ONodeSetn a0 a1) ++ L)) (flat_map send_msgs sends).
Proof.
  intros n L s a0 a1 s1 sends e I Hw H.
  cbn [wf_op] in Hw; try discriminate Hw; split_ands.
  unfold obj_step, obj_step_core, ok, fail in H.
  brk_hyp H; inversion H; subst; clear H.
  all: cbn [flat_map send_msgs app].
  all: cbn [op_ids].
  all: pose proof (io_dg _ _ I) as [DG DGS].
  all: change (v_dict_brackets repaired) with false in *.
  all: (split; [ try solve [inv_tac I] | try solve [constructor] ]).
  all: try solve [ use_target L I; use_nodes L I; unfold pargroup_creation_cmd, group_creation_cmd, py_int in *;
                   brk_eqs; bools; goods ].
  all: try solve [ bools; brk_eqs; toks; match goal with G : get_buf _ _ = Some _ |- _ => use_buf L I G end;
                   repeat match goal with G : get_buf _ _ = Some _ |- _ => use_buf L I G end;
                   ions; brk_eqs; goods ].
  all: try solve [ bools; brk_eqs; toks; match goal with G : get_bus _ _ = Some _ |- _ => use_bus L I G end; ions; brk_eqs; goods ].
  all: use_nodes L I.
  all: rewrite aci_tuple in Heqp; inversion Heqp; subst l; clear Heqp.
  all: constructor; [|constructor].
  all: destruct (setn_groups TCtl w_ctl (fun c r Hc => conj (eat_ctl_tok c r Hc) (ctl_is_tok c Hc)) _ (map (aci s1) a1) (le_n _) P)
         as [ws [W [G [N Ne]]]].
  all: eapply (good_cgroups _ "/n_setn" [PInt z] (setn_items (map (aci s1) a1)) _ TCtl TNum _ ws []);
       try reflexivity; try exact W; try exact G; try exact N; try (let Y := fresh "Y" in intros Y; reflexivity);
       try solve [ids_goal]; try solve [intros k i []].
  all: apply Ne; destruct a1; [discriminate Hw | discriminate].

Qed.

Lemma og_ONodeMap : forall n L s a0 a1 a2 s1 sends e,
  InvO L s -> wf_op n s (ONodeMap a0 a1 a2) = true -> obj_step repaired s (ONodeMap a0 a1 a2) = (s1, sends, e) ->
  InvO (op_ids s (ONodeMap a0 a1 a2) ++ L) s1 /\ Forall (Good (op_ids s (ONodeMap a0 a1 a2) ++ L)) (flat_map send_msgs sends).
Proof.
  intros n L s a0 a1 a2 s1 sends e I Hw H.
  cbn [wf_op] in Hw; try discriminate Hw; split_ands.
  unfold obj_step, obj_step_core, ok, fail in H.
  brk_hyp H; inversion H; subst; clear H.
  all: cbn [flat_map send_msgs app].
  all: cbn [op_ids].
  all: pose proof (io_dg _ _ I) as [DG DGS].
  all: change (v_dict_brackets repaired) with false in *.
  all: (split; [ try solve [inv_tac I] | try solve [constructor] ]).
  all: try solve [ use_target L I; use_nodes L I; unfold pargroup_creation_cmd, group_creation_cmd, py_int in *;
                   brk_eqs; bools; goods ].
  all: try solve [ bools; brk_eqs; toks; match goal with G : get_buf _ _ = Some _ |- _ => use_buf L I G end;
                   repeat match goal with G : get_buf _ _ = Some _ |- _ => use_buf L I G end;
                   ions; brk_eqs; goods ].
  all: try solve [ bools; brk_eqs; toks; match goal with G : get_bus _ _ = Some _ |- _ => use_bus L I G end; ions; brk_eqs; goods ].
  all: use_nodes L I.
  all: rewrite aci_tuple in Heqp; inversion Heqp; subst l; clear Heqp.
  all: constructor; [|constructor].
  all: destruct (map_groups L s1 I _ a2 (le_n _) P) as [ids [T [G Kids]]].
  all: match goal with |- Good _ (PStr ?cmd :: _) =>
       eapply (good_groups _ cmd [PInt z] (map (aci s1) a2) _ [TCtl; TBusM] true _ _ ids) end;
       try reflexivity; try (apply wire_toks; exact T); try exact G; try apply toks_not_msg; try exact Kids;
       try (let Y := fresh "Y" in intros Y; reflexivity); try solve [ids_goal].
  all: right; destruct a2; [discriminate Hw | discriminate].

Qed.

Lemma og_ONodeMapn : forall n L s a0 a1 a2 s1 sends e,
  InvO L s -> wf_op n s (ONodeMapn a0 a1 a2) = true -> obj_step repaired s (ONodeMapn a0 a1 a2) = (s1, sends, e) ->
  InvO (op_ids s (ONodeMapn a0 a1 a2) ++ L) s1 /\ Forall (Good (op_ids s (ONodeMapn a0 a1 a2) ++ L)) (flat_map send_msgs sends).
Proof.
  intros n L s a0 a1 a2 s1 sends e I Hw H.
  cbn [wf_op] in Hw; try discriminate Hw; split_ands.
  unfold obj_step, obj_step_core, ok, fail in H.
  brk_hyp H; inversion H; subst; clear H.
  all: cbn [flat_map send_msgs app].
  all: cbn [op_ids].
  all: pose proof (io_dg _ _ I) as [DG DGS].
  all: change (v_dict_brackets repaired) with false in *.
  all: (split; [ try solve [inv_tac I] | try solve [constructor] ]).
  all: try solve [ use_target L I; use_nodes L I; unfold pargroup_creation_cmd, group_creation_cmd, py_int in *;
                   brk_eqs; bools; goods ].
  all: try solve [ bools; brk_eqs; toks; match goal with G : get_buf _ _ = Some _ |- _ => use_buf L I G end;
                   repeat match goal with G : get_buf _ _ = Some _ |- _ => use_buf L I G end;
                   ions; brk_eqs; goods ].
  all: try solve [ bools; brk_eqs; toks; match goal with G : get_bus _ _ = Some _ |- _ => use_bus L I G end; ions; brk_eqs; goods ].
  all: use_nodes L I.
  all: destruct (mapn_groups L s1 I _ a2 (le_n _) P) as [data [ids [Ed [T [G [Kids Ne]]]]]].
  all: rewrite Ed in Heqo0; inversion Heqo0; subst l; clear Heqo0.
  all: constructor; [|constructor].
  all: match goal with |- Good _ (PStr ?cmd :: _) =>
       eapply (good_groups _ cmd [PInt z] data _ [TCtl; TBusM; TInt] true _ _ ids) end;
       try reflexivity; try (apply wire_toks; exact T); try exact G; try apply toks_not_msg; try exact Kids;
       try (let Y := fresh "Y" in intros Y; reflexivity); try solve [ids_goal].
  all: right; apply toks_wire_nonempty; apply Ne; destruct a2; [discriminate Hw | discriminate].

Qed.

Lemma og_ONodeFill : forall n L s a0 a1 s1 sends e,
  InvO L s -> wf_op n s (ONodeFill a0 a1) = true -> obj_step repaired s (ONodeFill a0 a1) = (s1, sends, e) ->
  InvO (op_ids s (ONodeFill a0 a1) ++ L) s1 /\ Forall (Good (op_ids s (ONodeFill a0 a1) ++ L)) (flat_map send_msgs sends).
Proof.
  intros n L s a0 a1 s1 sends e I Hw H.
  cbn [wf_op] in Hw; try discriminate Hw; split_ands.
  unfold obj_step, obj_step_core, ok, fail in H.
  brk_hyp H; inversion H; subst; clear H.
  all: cbn [flat_map send_msgs app].
  all: cbn [op_ids].
  all: pose proof (io_dg _ _ I) as [DG DGS].
  all: change (v_dict_brackets repaired) with false in *.
  all: (split; [ try solve [inv_tac I] | try solve [constructor] ]).
  all: try solve [ use_target L I; use_nodes L I; unfold pargroup_creation_cmd, group_creation_cmd, py_int in *;
                   brk_eqs; bools; goods ].
  all: try solve [ bools; brk_eqs; toks; match goal with G : get_buf _ _ = Some _ |- _ => use_buf L I G end;
                   repeat match goal with G : get_buf _ _ = Some _ |- _ => use_buf L I G end;
                   ions; brk_eqs; goods ].
  all: try solve [ bools; brk_eqs; toks; match goal with G : get_bus _ _ = Some _ |- _ => use_bus L I G end; ions; brk_eqs; goods ].
  all: use_nodes L I.
  all: rewrite aci_tuple in Heqp2; inversion Heqp2; subst l2; clear Heqp2.
  all: constructor; [|constructor].
  all: destruct (chunks_groups [TCtl; TInt; TNum] ltac:(discriminate) _ _ Hw) as [W [G T]].
  all: eapply (good_groups _ "/n_fill" [PInt z] (p :: p0 :: p1 :: map (aci s1) l1) _ [TCtl; TInt; TNum] true _ _ []);
       try reflexivity; try exact W; try exact G; try apply toks_not_msg; try (let Y := fresh "Y" in intros Y; reflexivity);
       try solve [ids_goal]; try solve [intros k i []].
  all: right; discriminate.

Qed.

Lemma og_ONodeRelease : forall n L s a0 a1 s1 sends e,
  InvO L s -> wf_op n s (ONodeRelease a0 a1) = true -> obj_step repaired s (ONodeRelease a0 a1) = (s1, sends, e) ->
  InvO (op_ids s (ONodeRelease a0 a1) ++ L) s1 /\ Forall (Good (op_ids s (ONodeRelease a0 a1) ++ L)) (flat_map send_msgs sends).
Proof.
  intros n L s a0 a1 s1 sends e I Hw H.
  cbn [wf_op] in Hw; try discriminate Hw; split_ands.
  unfold obj_step, obj_step_core, ok, fail in H.
  brk_hyp H; inversion H; subst; clear H.
  all: cbn [flat_map send_msgs app].
  all: cbn [op_ids].
  all: pose proof (io_dg _ _ I) as [DG DGS].
  all: change (v_dict_brackets repaired) with false in *.
  all: (split; [ try solve [inv_tac I] | try solve [constructor] ]).
  all: try solve [ use_target L I; use_nodes L I; unfold pargroup_creation_cmd, group_creation_cmd, py_int in *;
                   brk_eqs; bools; goods ].
  all: try solve [ bools; brk_eqs; toks; match goal with G : get_buf _ _ = Some _ |- _ => use_buf L I G end;
                   repeat match goal with G : get_buf _ _ = Some _ |- _ => use_buf L I G end;
                   ions; brk_eqs; goods ].
  all: try solve [ bools; brk_eqs; toks; match goal with G : get_bus _ _ = Some _ |- _ => use_bus L I G end; ions; brk_eqs; goods ].

Qed.

Lemma og_ONodeRun : forall n L s a0 a1 s1 sends e,
  InvO L s -> wf_op n s (ONodeRun a0 a1) = true -> obj_step repaired s (ONodeRun a0 a1) = (s1, sends, e) ->
  InvO (op_ids s (ONodeRun a0 a1) ++ L) s1 /\ Forall (Good (op_ids s (ONodeRun a0 a1) ++ L)) (flat_map send_msgs sends).
Proof.
  intros n L s a0 a1 s1 sends e I Hw H.
  cbn [wf_op] in Hw; try discriminate Hw; split_ands.
  unfold obj_step, obj_step_core, ok, fail in H.
  brk_hyp H; inversion H; subst; clear H.
  all: cbn [flat_map send_msgs app].
  all: cbn [op_ids].
  all: pose proof (io_dg _ _ I) as [DG DGS].
  all: change (v_dict_brackets repaired) with false in *.
  all: (split; [ try solve [inv_tac I] | try solve [constructor] ]).
  all: try solve [ use_target L I; use_nodes L I; unfold pargroup_creation_cmd, group_creation_cmd, py_int in *;
                   brk_eqs; bools; goods ].
  all: try solve [ bools; brk_eqs; toks; match goal with G : get_buf _ _ = Some _ |- _ => use_buf L I G end;
                   repeat match goal with G : get_buf _ _ = Some _ |- _ => use_buf L I G end;
                   ions; brk_eqs; goods ].
  all: try solve [ bools; brk_eqs; toks; match goal with G : get_bus _ _ = Some _ |- _ => use_bus L I G end; ions; brk_eqs; goods ].

Qed.

Lemma og_ONodeFree : forall n L s a0 a1 s1 sends e,
  InvO L s -> wf_op n s (ONodeFree a0 a1) = true -> obj_step repaired s (ONodeFree a0 a1) = (s1, sends, e) ->
  InvO (op_ids s (ONodeFree a0 a1) ++ L) s1 /\ Forall (Good (op_ids s (ONodeFree a0 a1) ++ L)) (flat_map send_msgs sends).
Proof.
  intros n L s a0 a1 s1 sends e I Hw H.
  cbn [wf_op] in Hw; try discriminate Hw; split_ands.
  unfold obj_step, obj_step_core, ok, fail in H.
  brk_hyp H; inversion H; subst; clear H.
  all: cbn [flat_map send_msgs app].
  all: cbn [op_ids].
  all: pose proof (io_dg _ _ I) as [DG DGS].
  all: change (v_dict_brackets repaired) with false in *.
  all: (split; [ try solve [inv_tac I] | try solve [constructor] ]).
  all: try solve [ use_target L I; use_nodes L I; unfold pargroup_creation_cmd, group_creation_cmd, py_int in *;
                   brk_eqs; bools; goods ].
  all: try solve [ bools; brk_eqs; toks; match goal with G : get_buf _ _ = Some _ |- _ => use_buf L I G end;
                   repeat match goal with G : get_buf _ _ = Some _ |- _ => use_buf L I G end;
                   ions; brk_eqs; goods ].
  all: try solve [ bools; brk_eqs; toks; match goal with G : get_bus _ _ = Some _ |- _ => use_bus L I G end; ions; brk_eqs; goods ].

Qed.

Lemma og_ONodeTrace : forall n L s a0 s1 sends e,
  InvO L s -> wf_op n s (ONodeTrace a0) = true -> obj_step repaired s (ONodeTrace a0) = (s1, sends, e) ->
  InvO (op_ids s (ONodeTrace a0) ++ L) s1 /\ Forall (Good (op_ids s (ONodeTrace a0) ++ L)) (flat_map send_msgs sends).
Proof.
  intros n L s a0 s1 sends e I Hw H.
  cbn [wf_op] in Hw; try discriminate Hw; split_ands.
  unfold obj_step, obj_step_core, ok, fail in H.
  brk_hyp H; inversion H; subst; clear H.
  all: cbn [flat_map send_msgs app].
  all: cbn [op_ids].
  all: pose proof (io_dg _ _ I) as [DG DGS].
  all: change (v_dict_brackets repaired) with false in *.
  all: (split; [ try solve [inv_tac I] | try solve [constructor] ]).
  all: try solve [ use_target L I; use_nodes L I; unfold pargroup_creation_cmd, group_creation_cmd, py_int in *;
                   brk_eqs; bools; goods ].
  all: try solve [ bools; brk_eqs; toks; match goal with G : get_buf _ _ = Some _ |- _ => use_buf L I G end;
                   repeat match goal with G : get_buf _ _ = Some _ |- _ => use_buf L I G end;
                   ions; brk_eqs; goods ].
  all: try solve [ bools; brk_eqs; toks; match goal with G : get_bus _ _ = Some _ |- _ => use_bus L I G end; ions; brk_eqs; goods ].

Qed.

Lemma og_ONodeQuery : forall n L s a0 s1 sends e,
  InvO L s -> wf_op n s (ONodeQuery a0) = true -> obj_step repaired s (ONodeQuery a0) = (s1, sends, e) ->
  InvO (op_ids s (ONodeQuery a0) ++ L) s1 /\ Forall (Good (op_ids s (ONodeQuery a0) ++ L)) (flat_map send_msgs sends).
Proof.
  intros n L s a0 s1 sends e I Hw H.
  cbn [wf_op] in Hw; try discriminate Hw; split_ands.
  unfold obj_step, obj_step_core, ok, fail in H.
  brk_hyp H; inversion H; subst; clear H.
  all: cbn [flat_map send_msgs app].
  all: cbn [op_ids].
  all: pose proof (io_dg _ _ I) as [DG DGS].
  all: change (v_dict_brackets repaired) with false in *.
  all: (split; [ try solve [inv_tac I] | try solve [constructor] ]).
  all: try solve [ use_target L I; use_nodes L I; unfold pargroup_creation_cmd, group_creation_cmd, py_int in *;
                   brk_eqs; bools; goods ].
  all: try solve [ bools; brk_eqs; toks; match goal with G : get_buf _ _ = Some _ |- _ => use_buf L I G end;
                   repeat match goal with G : get_buf _ _ = Some _ |- _ => use_buf L I G end;
                   ions; brk_eqs; goods ].
  all: try solve [ bools; brk_eqs; toks; match goal with G : get_bus _ _ = Some _ |- _ => use_bus L I G end; ions; brk_eqs; goods ].

Qed.

Lemma og_ONodeMoveBefore : forall n L s a0 a1 s1 sends e,
  InvO L s -> wf_op n s (ONodeMoveBefore a0 a1) = true -> obj_step repaired s (ONodeMoveBefore a0 a1) = (s1, sends, e) ->
  InvO (op_ids s (ONodeMoveBefore a0 a1) ++ L) s1 /\ Forall (Good (op_ids s (ONodeMoveBefore a0 a1) ++ L)) (flat_map send_msgs sends).
Proof.
  intros n L s a0 a1 s1 sends e I Hw H.
  cbn [wf_op] in Hw; try discriminate Hw; split_ands.
  unfold obj_step, obj_step_core, ok, fail in H.
  brk_hyp H; inversion H; subst; clear H.
  all: cbn [flat_map send_msgs app].
  all: cbn [op_ids].
  all: pose proof (io_dg _ _ I) as [DG DGS].
  all: change (v_dict_brackets repaired) with false in *.
  all: (split; [ try solve [inv_tac I] | try solve [constructor] ]).
  all: try solve [ use_target L I; use_nodes L I; unfold pargroup_creation_cmd, group_creation_cmd, py_int in *;
                   brk_eqs; bools; goods ].
  all: try solve [ bools; brk_eqs; toks; match goal with G : get_buf _ _ = Some _ |- _ => use_buf L I G end;
                   repeat match goal with G : get_buf _ _ = Some _ |- _ => use_buf L I G end;
                   ions; brk_eqs; goods ].
  all: try solve [ bools; brk_eqs; toks; match goal with G : get_bus _ _ = Some _ |- _ => use_bus L I G end; ions; brk_eqs; goods ].

Qed.

Lemma og_ONodeMoveAfter : forall n L s a0 a1 s1 sends e,
  InvO L s -> wf_op n s (ONodeMoveAfter a0 a1) = true -> obj_step repaired s (ONodeMoveAfter a0 a1) = (s1, sends, e) ->
  InvO (op_ids s (ONodeMoveAfter a0 a1) ++ L) s1 /\ Forall (Good (op_ids s (ONodeMoveAfter a0 a1) ++ L)) (flat_map send_msgs sends).
Proof.
  intros n L s a0 a1 s1 sends e I Hw H.
  cbn [wf_op] in Hw; try discriminate Hw; split_ands.
  unfold obj_step, obj_step_core, ok, fail in H.
  brk_hyp H; inversion H; subst; clear H.
  all: cbn [flat_map send_msgs app].
  all: cbn [op_ids].
  all: pose proof (io_dg _ _ I) as [DG DGS].
  all: change (v_dict_brackets repaired) with false in *.
  all: (split; [ try solve [inv_tac I] | try solve [constructor] ]).
  all: try solve [ use_target L I; use_nodes L I; unfold pargroup_creation_cmd, group_creation_cmd, py_int in *;
                   brk_eqs; bools; goods ].
  all: try solve [ bools; brk_eqs; toks; match goal with G : get_buf _ _ = Some _ |- _ => use_buf L I G end;
                   repeat match goal with G : get_buf _ _ = Some _ |- _ => use_buf L I G end;
                   ions; brk_eqs; goods ].
  all: try solve [ bools; brk_eqs; toks; match goal with G : get_bus _ _ = Some _ |- _ => use_bus L I G end; ions; brk_eqs; goods ].

Qed.

Lemma og_ONodeMoveToHead : forall n L s a0 a1 s1 sends e,
  InvO L s -> wf_op n s (ONodeMoveToHead a0 a1) = true -> obj_step repaired s (ONodeMoveToHead a0 a1) = (s1, sends, e) ->
  InvO (op_ids s (ONodeMoveToHead a0 a1) ++ L) s1 /\ Forall (Good (op_ids s (ONodeMoveToHead a0 a1) ++ L)) (flat_map send_msgs sends).
Proof.
  intros n L s a0 a1 s1 sends e I Hw H.
  cbn [wf_op] in Hw; try discriminate Hw; split_ands.
  unfold obj_step, obj_step_core, ok, fail in H.
  brk_hyp H; inversion H; subst; clear H.
  all: cbn [flat_map send_msgs app].
  all: cbn [op_ids].
  all: pose proof (io_dg _ _ I) as [DG DGS].
  all: change (v_dict_brackets repaired) with false in *.
  all: (split; [ try solve [inv_tac I] | try solve [constructor] ]).
  all: try solve [ use_target L I; use_nodes L I; unfold pargroup_creation_cmd, group_creation_cmd, py_int in *;
                   brk_eqs; bools; goods ].
  all: try solve [ bools; brk_eqs; toks; match goal with G : get_buf _ _ = Some _ |- _ => use_buf L I G end;
                   repeat match goal with G : get_buf _ _ = Some _ |- _ => use_buf L I G end;
                   ions; brk_eqs; goods ].
  all: try solve [ bools; brk_eqs; toks; match goal with G : get_bus _ _ = Some _ |- _ => use_bus L I G end; ions; brk_eqs; goods ].

Qed.

Lemma og_ONodeMoveToTail : forall n L s a0 a1 s1 sends e,
  InvO L s -> wf_op n s (ONodeMoveToTail a0 a1) = true -> obj_step repaired s (ONodeMoveToTail a0 a1) = (s1, sends, e) ->
  InvO (op_ids s (ONodeMoveToTail a0 a1) ++ L) s1 /\ Forall (Good (op_ids s (ONodeMoveToTail a0 a1) ++ L)) (flat_map send_msgs sends).
Proof.
  intros n L s a0 a1 s1 sends e I Hw H.
  cbn [wf_op] in Hw; try discriminate Hw; split_ands.
  unfold obj_step, obj_step_core, ok, fail in H.
  brk_hyp H; inversion H; subst; clear H.
  all: cbn [flat_map send_msgs app].
  all: cbn [op_ids].
  all: pose proof (io_dg _ _ I) as [DG DGS].
  all: change (v_dict_brackets repaired) with false in *.
  all: (split; [ try solve [inv_tac I] | try solve [constructor] ]).
  all: try solve [ use_target L I; use_nodes L I; unfold pargroup_creation_cmd, group_creation_cmd, py_int in *;
                   brk_eqs; bools; goods ].
  all: try solve [ bools; brk_eqs; toks; match goal with G : get_buf _ _ = Some _ |- _ => use_buf L I G end;
                   repeat match goal with G : get_buf _ _ = Some _ |- _ => use_buf L I G end;
                   ions; brk_eqs; goods ].
  all: try solve [ bools; brk_eqs; toks; match goal with G : get_bus _ _ = Some _ |- _ => use_bus L I G end; ions; brk_eqs; goods ].

Qed.

Lemma og_OGroupFreeAll : forall n L s a0 s1 sends e,
  InvO L s -> wf_op n s (OGroupFreeAll a0) = true -> obj_step repaired s (OGroupFreeAll a0) = (s1, sends, e) ->
  InvO (op_ids s (OGroupFreeAll a0) ++ L) s1 /\ Forall (Good (op_ids s (OGroupFreeAll a0) ++ L)) (flat_map send_msgs sends).
Proof.
  intros n L s a0 s1 sends e I Hw H.
  cbn [wf_op] in Hw; try discriminate Hw; split_ands.
  unfold obj_step, obj_step_core, ok, fail in H.
  brk_hyp H; inversion H; subst; clear H.
  all: cbn [flat_map send_msgs app].
  all: cbn [op_ids].
  all: pose proof (io_dg _ _ I) as [DG DGS].
  all: change (v_dict_brackets repaired) with false in *.
  all: (split; [ try solve [inv_tac I] | try solve [constructor] ]).
  all: try solve [ use_target L I; use_nodes L I; unfold pargroup_creation_cmd, group_creation_cmd, py_int in *;
                   brk_eqs; bools; goods ].
  all: try solve [ bools; brk_eqs; toks; match goal with G : get_buf _ _ = Some _ |- _ => use_buf L I G end;
                   repeat match goal with G : get_buf _ _ = Some _ |- _ => use_buf L I G end;
                   ions; brk_eqs; goods ].
  all: try solve [ bools; brk_eqs; toks; match goal with G : get_bus _ _ = Some _ |- _ => use_bus L I G end; ions; brk_eqs; goods ].

Qed.

Lemma og_OGroupDeepFree : forall n L s a0 s1 sends e,
  InvO L s -> wf_op n s (OGroupDeepFree a0) = true -> obj_step repaired s (OGroupDeepFree a0) = (s1, sends, e) ->
  InvO (op_ids s (OGroupDeepFree a0) ++ L) s1 /\ Forall (Good (op_ids s (OGroupDeepFree a0) ++ L)) (flat_map send_msgs sends).
Proof.
  intros n L s a0 s1 sends e I Hw H.
  cbn [wf_op] in Hw; try discriminate Hw; split_ands.
  unfold obj_step, obj_step_core, ok, fail in H.
  brk_hyp H; inversion H; subst; clear H.
  all: cbn [flat_map send_msgs app].
  all: cbn [op_ids].
  all: pose proof (io_dg _ _ I) as [DG DGS].
  all: change (v_dict_brackets repaired) with false in *.
  all: (split; [ try solve [inv_tac I] | try solve [constructor] ]).
  all: try solve [ use_target L I; use_nodes L I; unfold pargroup_creation_cmd, group_creation_cmd, py_int in *;
                   brk_eqs; bools; goods ].
  all: try solve [ bools; brk_eqs; toks; match goal with G : get_buf _ _ = Some _ |- _ => use_buf L I G end;
                   repeat match goal with G : get_buf _ _ = Some _ |- _ => use_buf L I G end;
                   ions; brk_eqs; goods ].
  all: try solve [ bools; brk_eqs; toks; match goal with G : get_bus _ _ = Some _ |- _ => use_bus L I G end; ions; brk_eqs; goods ].

Qed.

Lemma og_OGroupDumpTree : forall n L s a0 a1 s1 sends e,
  InvO L s -> wf_op n s (OGroupDumpTree a0 a1) = true -> obj_step repaired s (OGroupDumpTree a0 a1) = (s1, sends, e) ->
  InvO (op_ids s (OGroupDumpTree a0 a1) ++ L) s1 /\ Forall (Good (op_ids s (OGroupDumpTree a0 a1) ++ L)) (flat_map send_msgs sends).
Proof.
  intros n L s a0 a1 s1 sends e I Hw H.
  cbn [wf_op] in Hw; try discriminate Hw; split_ands.
  unfold obj_step, obj_step_core, ok, fail in H.
  brk_hyp H; inversion H; subst; clear H.
  all: cbn [flat_map send_msgs app].
  all: cbn [op_ids].
  all: pose proof (io_dg _ _ I) as [DG DGS].
  all: change (v_dict_brackets repaired) with false in *.
  all: (split; [ try solve [inv_tac I] | try solve [constructor] ]).
  all: try solve [ use_target L I; use_nodes L I; unfold pargroup_creation_cmd, group_creation_cmd, py_int in *;
                   brk_eqs; bools; goods ].
  all: try solve [ bools; brk_eqs; toks; match goal with G : get_buf _ _ = Some _ |- _ => use_buf L I G end;
                   repeat match goal with G : get_buf _ _ = Some _ |- _ => use_buf L I G end;
                   ions; brk_eqs; goods ].
  all: try solve [ bools; brk_eqs; toks; match goal with G : get_bus _ _ = Some _ |- _ => use_bus L I G end; ions; brk_eqs; goods ].

Qed.

Lemma og_OReorder : forall n L s a0 a1 a2 s1 sends e,
  InvO L s -> wf_op n s (OReorder a0 a1 a2) = true -> obj_step repaired s (OReorder a0 a1 a2) = (s1, sends, e) ->
  InvO (op_ids s (OReorder a0 a1 a2) ++ L) s1 /\ Forall (Good (op_ids s (OReorder a0 a1 a2) ++ L)) (flat_map send_msgs sends).
Proof.
  intros n L s a0 a1 a2 s1 sends e I Hw H.
  cbn [wf_op] in Hw; try discriminate Hw; split_ands.
  unfold obj_step, obj_step_core, ok, fail in H.
  brk_hyp H; inversion H; subst; clear H.
  all: cbn [flat_map send_msgs app].
  all: cbn [op_ids].
  all: pose proof (io_dg _ _ I) as [DG DGS].
  all: change (v_dict_brackets repaired) with false in *.
  all: (split; [ try solve [inv_tac I] | try solve [constructor] ]).
  all: try solve [ use_target L I; use_nodes L I; unfold pargroup_creation_cmd, group_creation_cmd, py_int in *;
                   brk_eqs; bools; goods ].
  all: try solve [ bools; brk_eqs; toks; match goal with G : get_buf _ _ = Some _ |- _ => use_buf L I G end;
                   repeat match goal with G : get_buf _ _ = Some _ |- _ => use_buf L I G end;
                   ions; brk_eqs; goods ].
  all: try solve [ bools; brk_eqs; toks; match goal with G : get_bus _ _ = Some _ |- _ => use_bus L I G end; ions; brk_eqs; goods ].
  all: use_target L I.
  all: destruct (node_ids_groups L s1 a0 I P) as [data [ids [E [T [G [Kids Ne]]]]]].
  all: rewrite E in Heqo; inversion Heqo; subst l; clear Heqo.
  all: constructor; [|constructor].
  all: match goal with |- Good _ (PStr _ :: PInt ?a :: PInt ?t :: _) =>
       eapply (good_groups _ "/n_order" [PInt a; PInt t] data _ [TNode] true _ _ ids) end;
       try reflexivity; try (apply wire_toks; exact T); try exact G; try apply toks_not_msg;
       try (let Y := fresh "Y" in intros Y; reflexivity); try solve [ids_goal].
  all: try (intros k i Hk; apply known_r; apply Kids; exact Hk).
  all: right; apply toks_wire_nonempty; apply Ne; destruct a0; [discriminate Hw | discriminate].

Qed.

Lemma og_OFreeDefaultGroup : forall n L s a0 s1 sends e,
  InvO L s -> wf_op n s (OFreeDefaultGroup a0) = true -> obj_step repaired s (OFreeDefaultGroup a0) = (s1, sends, e) ->
  InvO (op_ids s (OFreeDefaultGroup a0) ++ L) s1 /\ Forall (Good (op_ids s (OFreeDefaultGroup a0) ++ L)) (flat_map send_msgs sends).
Proof.
  intros n L s a0 s1 sends e I Hw H.
  cbn [wf_op] in Hw; try discriminate Hw; split_ands.
  unfold obj_step, obj_step_core, ok, fail in H.
  brk_hyp H; inversion H; subst; clear H.
  all: cbn [flat_map send_msgs app].
  all: cbn [op_ids].
  all: pose proof (io_dg _ _ I) as [DG DGS].
  all: change (v_dict_brackets repaired) with false in *.
  all: (split; [ try solve [inv_tac I] | try solve [constructor] ]).
  all: try solve [ use_target L I; use_nodes L I; unfold pargroup_creation_cmd, group_creation_cmd, py_int in *;
                   brk_eqs; bools; goods ].
  all: try solve [ bools; brk_eqs; toks; match goal with G : get_buf _ _ = Some _ |- _ => use_buf L I G end;
                   repeat match goal with G : get_buf _ _ = Some _ |- _ => use_buf L I G end;
                   ions; brk_eqs; goods ].
  all: try solve [ bools; brk_eqs; toks; match goal with G : get_bus _ _ = Some _ |- _ => use_bus L I G end; ions; brk_eqs; goods ].
  all: match goal with |- Forall _ (flat_map send_msgs (map (fun g => SMsg (@?f g)) ?l)) => rewrite (flat_map_smsg f l) end.
  all: apply Forall_forall; intros m Hm; apply in_map_iff in Hm; destruct Hm as [g [Em Hg]]; subst m.
  all: try (destruct Hg as [Hg|[]]; subst g).
  all: try (pose proof (DGS g Hg)).
  all: good_fixed.

Qed.

Lemma og_OSendDefaultGroups : forall n L s  s1 sends e,
  InvO L s -> wf_op n s (OSendDefaultGroups ) = true -> obj_step repaired s (OSendDefaultGroups ) = (s1, sends, e) ->
  InvO (op_ids s (OSendDefaultGroups ) ++ L) s1 /\ Forall (Good (op_ids s (OSendDefaultGroups ) ++ L)) (flat_map send_msgs sends).
Proof.
  intros n L s  s1 sends e I Hw H.
  cbn [wf_op] in Hw; try discriminate Hw; split_ands.
  unfold obj_step, obj_step_core, ok, fail in H.
  brk_hyp H; inversion H; subst; clear H.
  all: cbn [flat_map send_msgs app].
  all: cbn [op_ids].
  all: pose proof (io_dg _ _ I) as [DG DGS].
  all: change (v_dict_brackets repaired) with false in *.
  all: (split; [ try solve [inv_tac I] | try solve [constructor] ]).
  all: try solve [ use_target L I; use_nodes L I; unfold pargroup_creation_cmd, group_creation_cmd, py_int in *;
                   brk_eqs; bools; goods ].
  all: try solve [ bools; brk_eqs; toks; match goal with G : get_buf _ _ = Some _ |- _ => use_buf L I G end;
                   repeat match goal with G : get_buf _ _ = Some _ |- _ => use_buf L I G end;
                   ions; brk_eqs; goods ].
  all: try solve [ bools; brk_eqs; toks; match goal with G : get_bus _ _ = Some _ |- _ => use_bus L I G end; ions; brk_eqs; goods ].
  all: match goal with |- Forall _ (flat_map send_msgs (map (fun g => SMsg (@?f g)) ?l)) => rewrite (flat_map_smsg f l) end.
  all: apply Forall_forall; intros m Hm; apply in_map_iff in Hm; destruct Hm as [g [Em Hg]]; subst m.
  all: try (destruct Hg as [Hg|[]]; subst g).
  all: try (pose proof (DGS g Hg)).
  all: good_fixed.

Qed.

Lemma og_ODumpOsc : forall n L s a0 s1 sends e,
  InvO L s -> wf_op n s (ODumpOsc a0) = true -> obj_step repaired s (ODumpOsc a0) = (s1, sends, e) ->
  InvO (op_ids s (ODumpOsc a0) ++ L) s1 /\ Forall (Good (op_ids s (ODumpOsc a0) ++ L)) (flat_map send_msgs sends).
Proof.
  intros n L s a0 s1 sends e I Hw H.
  cbn [wf_op] in Hw; try discriminate Hw; split_ands.
  unfold obj_step, obj_step_core, ok, fail in H.
  brk_hyp H; inversion H; subst; clear H.
  all: cbn [flat_map send_msgs app].
  all: cbn [op_ids].
  all: pose proof (io_dg _ _ I) as [DG DGS].
  all: change (v_dict_brackets repaired) with false in *.
  all: (split; [ try solve [inv_tac I] | try solve [constructor] ]).
  all: try solve [ use_target L I; use_nodes L I; unfold pargroup_creation_cmd, group_creation_cmd, py_int in *;
                   brk_eqs; bools; goods ].
  all: try solve [ bools; brk_eqs; toks; match goal with G : get_buf _ _ = Some _ |- _ => use_buf L I G end;
                   repeat match goal with G : get_buf _ _ = Some _ |- _ => use_buf L I G end;
                   ions; brk_eqs; goods ].
  all: try solve [ bools; brk_eqs; toks; match goal with G : get_bus _ _ = Some _ |- _ => use_bus L I G end; ions; brk_eqs; goods ].

Qed.

Lemma og_ODefSend : forall n L s a0 a1 s1 sends e,
  InvO L s -> wf_op n s (ODefSend a0 a1) = true -> obj_step repaired s (ODefSend a0 a1) = (s1, sends, e) ->
  InvO (op_ids s (ODefSend a0 a1) ++ L) s1 /\ Forall (Good (op_ids s (ODefSend a0 a1) ++ L)) (flat_map send_msgs sends).
Proof.
  intros n L s a0 a1 s1 sends e I Hw H.
  cbn [wf_op] in Hw; try discriminate Hw; split_ands.
  unfold obj_step, obj_step_core, ok, fail in H.
  brk_hyp H; inversion H; subst; clear H.
  all: cbn [flat_map send_msgs app].
  all: cbn [op_ids].
  all: pose proof (io_dg _ _ I) as [DG DGS].
  all: change (v_dict_brackets repaired) with false in *.
  all: (split; [ try solve [inv_tac I] | try solve [constructor] ]).
  all: try solve [ use_target L I; use_nodes L I; unfold pargroup_creation_cmd, group_creation_cmd, py_int in *;
                   brk_eqs; bools; goods ].
  all: try solve [ bools; brk_eqs; toks; match goal with G : get_buf _ _ = Some _ |- _ => use_buf L I G end;
                   repeat match goal with G : get_buf _ _ = Some _ |- _ => use_buf L I G end;
                   ions; brk_eqs; goods ].
  all: try solve [ bools; brk_eqs; toks; match goal with G : get_bus _ _ = Some _ |- _ => use_bus L I G end; ions; brk_eqs; goods ].
  all: constructor; [|constructor]. all: apply good_d_recv; [exact Hw | compl_ids_goal].

Qed.

Lemma og_ODefLoad : forall n L s a0 a1 a2 s1 sends e,
  InvO L s -> wf_op n s (ODefLoad a0 a1 a2) = true -> obj_step repaired s (ODefLoad a0 a1 a2) = (s1, sends, e) ->
  InvO (op_ids s (ODefLoad a0 a1 a2) ++ L) s1 /\ Forall (Good (op_ids s (ODefLoad a0 a1 a2) ++ L)) (flat_map send_msgs sends).
Proof.
  intros n L s a0 a1 a2 s1 sends e I Hw H.
  cbn [wf_op] in Hw; try discriminate Hw; split_ands.
  unfold obj_step, obj_step_core, ok, fail in H.
  brk_hyp H; inversion H; subst; clear H.
  all: cbn [flat_map send_msgs app].
  all: cbn [op_ids].
  all: pose proof (io_dg _ _ I) as [DG DGS].
  all: change (v_dict_brackets repaired) with false in *.
  all: (split; [ try solve [inv_tac I] | try solve [constructor] ]).
  all: try solve [ use_target L I; use_nodes L I; unfold pargroup_creation_cmd, group_creation_cmd, py_int in *;
                   brk_eqs; bools; goods ].
  all: try solve [ bools; brk_eqs; toks; match goal with G : get_buf _ _ = Some _ |- _ => use_buf L I G end;
                   repeat match goal with G : get_buf _ _ = Some _ |- _ => use_buf L I G end;
                   ions; brk_eqs; goods ].
  all: try solve [ bools; brk_eqs; toks; match goal with G : get_bus _ _ = Some _ |- _ => use_bus L I G end; ions; brk_eqs; goods ].
  all: unfold is_load_cmd in P0; apply orb_true_iff in P0; destruct P0 as [P0|P0]; apply String.eqb_eq in P0; subst.
  all: (constructor; [good_compl Hw | constructor]).

Qed.
