(* C01_sem2.v -- the emitted graph: den_graph evaluates the sorted unit list to the values of the
   valuation, and obs_graph is what the effectful units read (a permutation of the state's observations). *)
From Coq Require Import ZArith QArith Qcanon List String Bool Arith Lia Setoid Permutation.
Import ListNotations.
Require Import SC3.model.Graph SC3.model.GraphSem SC3.proofs.C01_inv SC3.proofs.C01_init SC3.proofs.C01_sem.
Open Scope string_scope.
Open Scope nat_scope.
Open Scope list_scope.

Lemma pos_nth_error : forall u l j, pos u l = Some j -> nth_error l j = Some u.
Proof.
  intros u l. induction l as [|x t IH]; intros j H; simpl in *; [discriminate|].
  destruct (Nat.eqb u x) eqn:E.
  - injection H as <-. apply Nat.eqb_eq in E. subst. reflexivity.
  - destruct (pos u t) eqn:P; [|discriminate]. injection H as <-. simpl. apply IH. reflexivity.
Qed.
Lemma pos_app_new : forall u pre t, ~ In u pre -> pos u (pre ++ u :: t) = Some (List.length pre).
Proof.
  intros u pre t. induction pre as [|x p IH]; intro H; simpl.
  - rewrite Nat.eqb_refl. reflexivity.
  - assert (E : Nat.eqb u x = false) by (apply Nat.eqb_neq; intro; subst; apply H; left; auto). rewrite E.
    rewrite IH; auto. intro; apply H; right; auto.
Qed.

Lemma nth_map_row : forall (f : nat -> row) (l : list nat) j v, nth_error l j = Some v -> nth j (map f l) [] = f v.
Proof.
  intros f l. induction l as [|x t IH]; intros [|j] v H; simpl in *; try discriminate.
  - injection H as <-. reflexivity.
  - apply IH; auto.
Qed.

Section Emit.
Variable I : interp.
Variable s3 : st.
Variable out : list nat.
Variable G : nat -> unit.
Variable f : nat -> row.
Hypothesis Hnd : NoDup out.
Hypothesis Hget : forall u, In u out -> get_unit s3 u = Some (G u).
Hypothesis Hkey : forall v j, pos v out = Some j -> key_of s3 v = Z.of_nat j.
Hypothesis Hval : forall u, In u out -> f u = usem I f (G u).
Hypothesis Hbefore : forall c v ch i, pos c out = Some i -> In (O v ch) (ins (G c)) -> exists j, pos v out = Some j /\ j < i.

Definition conv (i : inp) : ginp := match i with K q => GK q | O v ch => GO (key_of s3 v) ch end.
Definition gu (U : unit) : gunit :=
  mkG (cls U) (urate U) (map conv (ins U)) (nouts U) (special U) (pure U) (tag U) (ukind U) (opname U).

Lemma gin_conv : forall pre c i x, out = pre ++ c :: x -> In i (ins (G c)) ->
  gin_val (map f pre) (conv i) = ival f i.
Proof.
  intros pre c [q|v ch] x E Hin; simpl; auto.
  assert (Hc : pos c out = Some (List.length pre)).
  { rewrite E. apply pos_app_new. rewrite E in Hnd. apply NoDup_remove_2 in Hnd. intro H. apply Hnd. apply in_or_app; auto. }
  destruct (Hbefore c v ch _ Hc Hin) as (j & Pj & Lt).
  rewrite (Hkey v j Pj), Nat2Z.id.
  pose proof (pos_nth_error v out j Pj) as Hn. rewrite E in Hn. rewrite nth_error_app1 in Hn by auto.
  assert (Hm : nth j (map f pre) [] = f v) by (apply nth_map_row; auto).
  rewrite Hm. reflexivity.
Qed.

Lemma gunit_val_emit : forall pre c x, out = pre ++ c :: x -> gunit_val I (map f pre) (gu (G c)) = f c.
Proof.
  intros pre c x E. unfold gunit_val, gu. cbn [g_kind g_cls g_op g_tag g_nouts g_special g_ins].
  rewrite map_map. rewrite (map_ext_in _ (ival f)); [|intros i Hi; eapply gin_conv; eauto].
  symmetry. apply Hval. rewrite E. apply in_or_app. right. left. auto.
Qed.

Lemma den_fold : forall post pre, out = pre ++ post ->
  fold_left (fun t u => t ++ [gunit_val I t u]) (map (fun u => gu (G u)) post) (map f pre) = map f out.
Proof.
  induction post as [|c x IH]; intros pre E; simpl.
  - rewrite E, app_nil_r. reflexivity.
  - rewrite (gunit_val_emit pre c x E).
    replace (map f pre ++ [f c]) with (map f (pre ++ [c])) by (rewrite map_app; reflexivity).
    apply IH. rewrite E, <- app_assoc. reflexivity.
Qed.

Definition entry (u : nat) : list obs :=
  if observable (ukind (G u)) (pure (G u)) (tag (G u)) then [(tag (G u), cls (G u), map (ival f) (ins (G u)))] else [].

Lemma obs_fold : forall post pre, out = pre ++ post ->
  flat_map (fun '(i, u) => if observable (g_kind u) (g_pure u) (g_tag u)
                           then [(g_tag u, g_cls u, map (gin_val (firstn i (map f out))) (g_ins u))] else [])
           (combine (seq (List.length pre) (List.length post)) (map (fun u => gu (G u)) post))
  = flat_map entry post.
Proof.
  induction post as [|c x IH]; intros pre E; simpl; auto.
  rewrite <- (IH (pre ++ [c])) by (rewrite E, <- app_assoc; reflexivity).
  rewrite app_length. simpl. rewrite Nat.add_1_r. f_equal.
  unfold entry, gu. cbn [g_kind g_pure g_tag g_cls g_ins].
  destruct (observable (ukind (G c)) (pure (G c)) (tag (G c))); auto. f_equal. f_equal.
  rewrite map_map. apply map_ext_in. intros i Hi.
  assert (Efn : firstn (List.length pre) (map f out) = map f pre).
  { rewrite E, map_app. rewrite <- (map_length f pre) at 1. rewrite firstn_app, Nat.sub_diag, firstn_all. simpl. rewrite app_nil_r. reflexivity. }
  rewrite Efn. eapply gin_conv; eauto.
Qed.
End Emit.

Require Import SC3.gen.Gen_opcodes SC3.proofs.C01_inv3 SC3.proofs.C01_built SC3.proofs.C01_opt SC3.proofs.C01_topo
               SC3.proofs.C01_topo2 SC3.proofs.C01_cov SC3.proofs.C01_compile.

Lemma Before_pos : forall out g c, NoDup out -> Before out g c ->
  exists i j, pos c out = Some i /\ pos g out = Some j /\ j < i.
Proof.
  intros out g c Hnd (o1 & o2 & E & Hin).
  assert (Hc : pos c out = Some (List.length o1)).
  { rewrite E. apply pos_app_new. rewrite E in Hnd. apply NoDup_remove_2 in Hnd. intro H. apply Hnd. apply in_or_app; auto. }
  assert (Hg : In g out) by (rewrite E; apply in_or_app; auto).
  apply pos_In in Hg. destruct Hg as [j Hj]. exists (List.length o1), j. split; auto. split; auto.
  pose proof (pos_nth_error g out j Hj) as Hn.
  destruct (Nat.lt_ge_cases j (List.length o1)) as [L|L]; auto. exfalso.
  apply pos_In in Hin. destruct Hin as [j' Hj'].
  pose proof (pos_nth_error g o1 j' Hj') as Hn'. pose proof (pos_lt _ _ _ Hj') as Lt'.
  assert (Hn2 : nth_error out j' = Some g) by (rewrite E, nth_error_app1; auto).
  rewrite NoDup_nth_error in Hnd. assert (j = j') by (apply Hnd; [apply nth_error_Some; congruence | congruence]). lia.
Qed.

Definition entry_s (I : interp) (s : st) (f : nat -> row) (u : nat) : list obs := obs_of I s f (Some u).

Lemma obs_state_live : forall I s f, obs_state I s f = flat_map (entry_s I s f) (live s).
Proof.
  intros I s f. unfold obs_state, live, entry_s. induction (children s) as [|o t IH]; simpl; auto.
  destruct o as [u|]; simpl; rewrite ?app_nil_r, IH; reflexivity.
Qed.

Theorem emit_sem : forall I p s1 s2f s3 s2 out g f,
  Compiled p s1 s2f s3 s2 out g -> Valid I s2 [] f ->
  Permutation (obs_graph I g) (obs_state I s2 f).
Proof.
  intros I p s1 s2f s3 s2 out g f [Hb B HI2 R [rho O] (C3 & P3 & B3) U3 -> _ Cov _ _] V.
  destruct R as (Hl & Hrw & _ & _ & Hg2).
  destruct O as [Orw Ouid [Och Ond] Ounit Oins Owfa].
  assert (Hnd : NoDup out) by (eapply Permutation_NoDup; [symmetry; exact P3 | exact Ond]).
  assert (Hin_out : forall u, In u out <-> In u (live s2f)).
  { intro u. split; intro H; [eapply Permutation_in; eauto | eapply Permutation_in; [symmetry|]; eauto]. }
  (* the unit objects *)
  assert (H2 : forall u, In u out -> exists U2, get_unit s2 u = Some U2 /\ liv s2 u).
  { intros u Hu. apply Hin_out in Hu. rewrite Hl in Hu. apply live_In in Hu.
    destruct (liv_get s2 [] u HI2 Hu) as (U2 & r & G & _). eauto. }
  set (G := fun u => match get_unit s3 u with Some U => U | None => mkU 0 "" Scalar [] 0 0%Z "" KPlain false false false false ChkValid None 0%Z None 0 end).
  assert (HG : forall u, In u out -> get_unit s3 u = Some (G u) /\ exists U2, get_unit s2 u = Some U2 /\
               same_sem U2 (G u) /\ ins (G u) = ins U2 /\ sidx (G u) = Z.of_nat (match pos u out with Some i => i | None => 0 end)).
  { intros u Hu. destruct (H2 u Hu) as (U2 & G2 & _). destruct (Hg2 u) as [i Hi]. rewrite G2 in Hi.
    pose proof (U3 u) as H3. rewrite Hi in H3. apply pos_In in Hu. destruct Hu as [k Hk]. rewrite Hk in H3.
    unfold G. rewrite H3, Hk. split; auto. exists U2. split; auto.
    destruct (pos u (live s2f)); unfold same_sem; simpl; repeat split; auto. }
  assert (Hkey : forall v j, pos v out = Some j -> key_of s3 v = Z.of_nat j).
  { intros v j Pj. assert (Hv : In v out) by (apply pos_In; eauto). destruct (HG v Hv) as (G3 & U2 & _ & _ & _ & Hs).
    unfold key_of. rewrite G3, Hs, Pj. reflexivity. }
  assert (Hval : forall u, In u out -> f u = usem I f (G u)).
  { intros u Hu. destruct (HG u Hu) as (_ & U2 & G2 & SS & Ei & _). destruct (H2 u Hu) as (U2' & G2' & L2).
    rewrite G2 in G2'. injection G2' as <-. rewrite (V u U2 L2 (fun x => x) G2). symmetry. apply usem_ext; auto. rewrite Ei. reflexivity. }
  assert (Hbefore : forall c v ch i, pos c out = Some i -> In (O v ch) (ins (G c)) -> exists j, pos v out = Some j /\ j < i).
  { intros c v ch i Pc Hin. assert (Hc : In c out) by (apply pos_In; eauto).
    destruct (HG c Hc) as (_ & U2 & G2 & _ & Ei & _). rewrite Ei in Hin.
    assert (Lc : In c (live s2f)) by (apply Hin_out; auto).
    destruct (Ounit c Lc) as (C & GC & _).
    assert (EC : ins C = ins U2).
    { destruct (Hg2 c) as [k Hk]. rewrite G2, GC in Hk. injection Hk as ->. reflexivity. }
    rewrite <- EC in Hin.
    destruct (Oins c C v ch Lc GC Hin) as (Lv & _ & _).
    destruct (Ounit v Lv) as (V0 & GV & _).
    assert (Hsrc : In v (SrcOf s2f c)).
    { unfold SrcOf. rewrite GC. unfold srcs. apply in_or_app. destruct (isugen V0) eqn:Ei0.
      - left. apply input_sources_In. exists ch, V0. auto.
      - right. exact (Cov c C v ch V0 Lc GC Hin GV Ei0). }
    destruct (Before_pos out v c Hnd (B3 c v Lc Hsrc)) as (i' & j & Pi & Pj & Lt). rewrite Pc in Pi. injection Pi as <-. eauto. }
  assert (Hget : forall u, In u out -> get_unit s3 u = Some (G u)) by (intros u Hu; destruct (HG u Hu); auto).
  (* the emitted unit list *)
  assert (Hl3 : live s3 = out) by (apply live_map_some; auto).
  assert (Hunits : gr_units (emit s3 (collect_constants s2f)) = map (fun u => gu s3 (G u)) out).
  { unfold emit. cbn [gr_units]. rewrite Hl3. clear -Hget. induction out as [|u t IH]; simpl; auto.
    rewrite (Hget u (or_introl eq_refl)). simpl. f_equal. apply IH. intros x Hx. apply Hget. right; auto. }
  assert (Hden : den_graph I (emit s3 (collect_constants s2f)) = map f out).
  { unfold den_graph. rewrite Hunits. apply (den_fold I s3 out G f Hnd Hkey Hval Hbefore out []). reflexivity. }
  assert (Hobs : obs_graph I (emit s3 (collect_constants s2f)) = flat_map (entry G f) out).
  { unfold obs_graph. rewrite Hden, Hunits, map_length.
    apply (obs_fold s3 out G f Hnd Hkey Hbefore out []). reflexivity. }
  rewrite Hobs, obs_state_live.
  assert (Hentry : forall u, In u out -> entry G f u = entry_s I s2 f u).
  { intros u Hu. destruct (HG u Hu) as (_ & U2 & G2 & (K1 & K2 & K3 & K4 & K5 & K6 & K7) & Ei & _).
    unfold entry, entry_s, obs_of. rewrite G2, K1, K7, K4, K2, Ei. reflexivity. }
  rewrite (flat_map_ext_in _ _ Hentry) || idtac.
  assert (E1 : flat_map (entry G f) out = flat_map (entry_s I s2 f) out).
  { clear -Hentry. induction out as [|u t IH]; simpl; auto. rewrite (Hentry u (or_introl eq_refl)). f_equal. apply IH. intros; apply Hentry; right; auto. }
  rewrite E1. apply Permutation_flat_map. rewrite <- Hl. exact P3.
Qed.
