(* The numeric state of a sc3 TempoClock (sc3/base/clock.py), as the regenerated
   definitions of gen/Gen_tempo.v see it: one record of Python numbers, functional
   setters named set_<projection> (the translator turns `self._f = e` into
   `set_f self e`).  Executable definitions only. *)
From Coq Require Import ZArith QArith.
Require Import SC3.lib.PyNum.

Record clockstate := mkClock {
  tempo : num;           (* self._tempo          beats per second            *)
  beat_dur : num;        (* self._beat_dur       seconds per beat            *)
  base_seconds : num;    (* self._base_seconds   \ the reference point of    *)
  base_beats : num;      (* self._base_beats     / the affine map            *)
  beats_per_bar : num;   (* self._beats_per_bar                              *)
  bars_per_beat : num;   (* self._bars_per_beat                              *)
  base_bar : num;        (* self._base_bar       bar number at last meter change *)
  base_bar_beat : num    (* self._base_bar_beat  beat of the last meter change   *)
}.

Definition set_tempo (s : clockstate) (v : num) : clockstate :=
  mkClock v (beat_dur s) (base_seconds s) (base_beats s) (beats_per_bar s) (bars_per_beat s) (base_bar s) (base_bar_beat s).
Definition set_beat_dur (s : clockstate) (v : num) : clockstate :=
  mkClock (tempo s) v (base_seconds s) (base_beats s) (beats_per_bar s) (bars_per_beat s) (base_bar s) (base_bar_beat s).
Definition set_base_seconds (s : clockstate) (v : num) : clockstate :=
  mkClock (tempo s) (beat_dur s) v (base_beats s) (beats_per_bar s) (bars_per_beat s) (base_bar s) (base_bar_beat s).
Definition set_base_beats (s : clockstate) (v : num) : clockstate :=
  mkClock (tempo s) (beat_dur s) (base_seconds s) v (beats_per_bar s) (bars_per_beat s) (base_bar s) (base_bar_beat s).
Definition set_beats_per_bar (s : clockstate) (v : num) : clockstate :=
  mkClock (tempo s) (beat_dur s) (base_seconds s) (base_beats s) v (bars_per_beat s) (base_bar s) (base_bar_beat s).
Definition set_bars_per_beat (s : clockstate) (v : num) : clockstate :=
  mkClock (tempo s) (beat_dur s) (base_seconds s) (base_beats s) (beats_per_bar s) v (base_bar s) (base_bar_beat s).
Definition set_base_bar (s : clockstate) (v : num) : clockstate :=
  mkClock (tempo s) (beat_dur s) (base_seconds s) (base_beats s) (beats_per_bar s) (bars_per_beat s) v (base_bar_beat s).
Definition set_base_bar_beat (s : clockstate) (v : num) : clockstate :=
  mkClock (tempo s) (beat_dur s) (base_seconds s) (base_beats s) (beats_per_bar s) (bars_per_beat s) (base_bar s) v.

(* The state `__init__` starts from: every field is the error value, so a field that the
   regenerated constructor forgets to assign stays visibly wrong. *)
Definition clock_blank : clockstate := mkClock NErr NErr NErr NErr NErr NErr NErr NErr.

(* `a or b` in numeric position (Python: a if a is truthy else b); None is passed as I 0
   by the callers (None and 0 are both falsy and are not used otherwise). *)
Definition por (a b : num) : num := match a with NErr => NErr | _ => if truth a then a else b end.

(* canonical forms for the correspondence *)
Definition canon_state (s : clockstate) : list (Z * Z * Z) :=
  cons (canon (tempo s)) (cons (canon (beat_dur s)) (cons (canon (base_seconds s)) (cons (canon (base_beats s))
  (cons (canon (beats_per_bar s)) (cons (canon (bars_per_beat s)) (cons (canon (base_bar s))
  (cons (canon (base_bar_beat s)) nil))))))).
Definition canon_ostate (o : option clockstate) : list (Z * Z * Z) :=
  match o with Some s => canon_state s | None => nil end.
Fixpoint canon_list_eqb (a b : list (Z * Z * Z)) : bool :=
  match a, b with
  | nil, nil => true
  | cons x a', cons y b' => andb (canon_eqb x y) (canon_list_eqb a' b')
  | _, _ => false
  end.
