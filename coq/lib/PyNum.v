(* Python numbers as the translator sees them: int = Z, float = Q ("ideal floats",
   DESIGN.md section 3), NErr = an exception was raised.  Executable. *)
From Coq Require Import ZArith QArith Qround Qabs Bool.
Open Scope Z_scope.

Inductive num := I (z : Z) | F (q : Q) | NErr.

Definition toQ (n : num) : Q := match n with I z => inject_Z z | F q => q | NErr => 0%Q end.
Definition is_int (n : num) : bool := match n with I _ => true | _ => false end.
Definition is_float (n : num) : bool := match n with F _ => true | _ => false end.
Definition is_ok (n : num) : bool := match n with NErr => false | _ => true end.

Definition Qtrunc (q : Q) : Z := if Qle_bool 0 q then Qfloor q else Qceiling q.

Definition lift2 (fz : Z -> Z -> num) (fq : Q -> Q -> num) (a b : num) : num :=
  match a, b with
  | NErr, _ | _, NErr => NErr
  | I x, I y => fz x y
  | _, _ => fq (toQ a) (toQ b)
  end.

Definition nadd := lift2 (fun x y => I (x + y)) (fun x y => F (x + y)%Q).
Definition nsub := lift2 (fun x y => I (x - y)) (fun x y => F (x - y)%Q).
Definition nmul := lift2 (fun x y => I (x * y)) (fun x y => F (x * y)%Q).
Definition ntruediv (a b : num) : num :=
  match a, b with
  | NErr, _ | _, NErr => NErr
  | _, _ => if Qeq_bool (toQ b) 0 then NErr else F (toQ a / toQ b)%Q
  end.
Definition nfloordiv := lift2 (fun x y => if y =? 0 then NErr else I (x / y))
                              (fun x y => if Qeq_bool y 0 then NErr else F (inject_Z (Qfloor (x / y)))).
Definition nmod := lift2 (fun x y => if y =? 0 then NErr else I (x mod y))
                         (fun x y => if Qeq_bool y 0 then NErr else F (x - y * inject_Z (Qfloor (x / y)))%Q).
Definition nbitor := lift2 (fun x y => I (Z.lor x y)) (fun _ _ => NErr).
Definition nbitand := lift2 (fun x y => I (Z.land x y)) (fun _ _ => NErr).
Definition nshl := lift2 (fun x y => if y <? 0 then NErr else I (Z.shiftl x y)) (fun _ _ => NErr).
Definition nshr := lift2 (fun x y => if y <? 0 then NErr else I (Z.shiftr x y)) (fun _ _ => NErr).

Definition nneg (a : num) : num := match a with I z => I (- z) | F q => F (- q)%Q | NErr => NErr end.
Definition nabs (a : num) : num := match a with I z => I (Z.abs z) | F q => F (Qabs q) | NErr => NErr end.

Definition cmp2 (f : Q -> Q -> bool) (a b : num) : bool :=
  match a, b with NErr, _ | _, NErr => false | _, _ => f (toQ a) (toQ b) end.
Definition Qlt_bool (x y : Q) : bool := negb (Qle_bool y x).
Definition nlt := cmp2 Qlt_bool.
Definition nle := cmp2 Qle_bool.
Definition ngt := cmp2 (fun x y => Qlt_bool y x).
Definition nge := cmp2 (fun x y => Qle_bool y x).
Definition neqb := cmp2 Qeq_bool.
Definition nneqb := cmp2 (fun x y => negb (Qeq_bool x y)).
Definition truth (a : num) : bool := match a with NErr => false | _ => negb (Qeq_bool (toQ a) 0) end.

(* math.floor / math.ceil return ints *)
Definition pfloor (a : num) : num := match a with I z => I z | F q => I (Qfloor q) | NErr => NErr end.
Definition pceil (a : num) : num := match a with I z => I z | F q => I (Qceiling q) | NErr => NErr end.
Definition pint (a : num) : num := match a with I z => I z | F q => I (Qtrunc q) | NErr => NErr end.
Definition pfloat (a : num) : num := match a with I z => F (inject_Z z) | F q => F q | NErr => NErr end.
(* math.fmod: float result, sign of the dividend *)
Definition pfmod (a b : num) : num :=
  match a, b with
  | NErr, _ | _, NErr => NErr
  | _, _ => if Qeq_bool (toQ b) 0 then NErr
            else F (toQ a - toQ b * inject_Z (Qtrunc (toQ a / toQ b)))%Q
  end.
(* builtins.min(a, b) returns a unless b < a; builtins.max(a, b) returns a unless b > a *)
Definition pmin (a b : num) : num :=
  match a, b with NErr, _ | _, NErr => NErr | _, _ => if nlt b a then b else a end.
Definition pmax (a b : num) : num :=
  match a, b with NErr, _ | _, NErr => NErr | _, _ => if ngt b a then b else a end.
(* T = type(x); T(e) *)
Definition cast_like (x e : num) : num :=
  match x with I _ => pint e | F _ => pfloat e | NErr => NErr end.

(* canonical form used by the correspondence: (tag, numerator, denominator) *)
Definition canon (n : num) : Z * Z * Z :=
  match n with
  | I z => (0, z, 1)
  | F q => let r := Qred q in (1, Qnum r, Zpos (Qden r))
  | NErr => (2, 0, 0)
  end.
Definition canon_eqb (a b : Z * Z * Z) : bool :=
  let '(t1, n1, d1) := a in let '(t2, n2, d2) := b in (t1 =? t2) && (n1 =? n2) && (d1 =? d2).

Fixpoint bad_idx_from {A} (ok : A -> bool) (l : list A) (i : nat) : list nat :=
  match l with
  | nil => nil
  | cons x r => if ok x then bad_idx_from ok r (S i) else cons i (bad_idx_from ok r (S i))
  end.
Definition bad_idx {A} (ok : A -> bool) (l : list A) : list nat := bad_idx_from ok l 0.
