(* Real-number reading of the transcendental library calls (math.log2 ...). Not executable. *)
From Coq Require Import Reals Rpower.
Open Scope R_scope.
Definition Rlog2 (x : R) : R := ln x / ln 2.
Definition Rlog10 (x : R) : R := ln x / ln 10.
(* float('-inf') / float('inf'): junk values; every theorem excludes the branch by its guard *)
Definition Rneg_inf : R := 0.
Definition Rpos_inf : R := 0.
